"""R-REG suites for Grid and Support (properties C13, C11, C10 predicates, C09 checked accessors, C15, C08d)."""
import itertools

from .interp import NAN, U64, Iter, LV, Obj, Opt, Sc, SharedPtr, Vec, box, val
from .r_reg import BSE, Cases, World, fmt, index_reps, windows


EXTENDED_FROM = 9


def _ns(lo, hi, ns):
    """Grid sizes handled by this job: lo..hi, or the explicit subset ns."""
    full = range(lo, hi + 1)
    ext = [n for n in (ns or ()) if n > hi and n >= EXTENDED_FROM]   # threshold extension (r_reg.run_jobs), sparse windows
    return [n for n in full if ns is None or n in ns] + ext


# ------------------------------------------------------------------------------------------------
# specification (written from the property statements, independent of the code)
# ------------------------------------------------------------------------------------------------
def spec_union(a, b):
    ea, eb = a[0] == a[1], b[0] == b[1]
    if ea and eb:
        return (0, 0)
    if ea:
        return b
    if eb:
        return a
    return (min(a[0], b[0]), max(a[1], b[1]))


def spec_intersection(a, b):
    pts = set(range(a[0], a[1])) & set(range(b[0], b[1]))
    if not pts:
        return (0, 0)
    return (min(pts), max(pts) + 1)


def same_window(a, b):
    return a == b or (a[0] == a[1] and b[0] == b[1])


def check_oracle(n):
    """Commutative / associative / idempotent on the specification itself (guards the oracle)."""
    ws = windows(n)
    for a in ws:
        assert same_window(spec_union(a, a), a) and same_window(spec_intersection(a, a), a)
        for b in ws:
            assert same_window(spec_union(a, b), spec_union(b, a))
            assert same_window(spec_intersection(a, b), spec_intersection(b, a))
            for c in ws:
                assert same_window(spec_intersection(spec_intersection(a, b), c),
                                   spec_intersection(a, spec_intersection(b, c)))
                # union (hull) is associative whenever defined as hull of non-empty operands
                assert same_window(spec_union(spec_union(a, b), c), spec_union(a, spec_union(b, c)))
    return len(ws) ** 3


def is_val(o, v):
    return o.kind == "val" and val(o.v) == v


def is_bool(o, b):
    return o.kind == "val" and isinstance(val(o.v), int) and (val(o.v) != 0) == bool(b)


def is_opt(o, v):
    if o.kind != "val":
        return False
    x = val(o.v)
    if not isinstance(x, Opt):
        return False
    return (not x.has) if v is None else (x.has and x.v == v)


def is_grid_elem(o, k):
    """Outcome is (a reference to) grid point k."""
    if o.kind != "val":
        return False
    x = val(o.v)
    return isinstance(x, Sc) and x.deps == frozenset([("grid", k)])


# ------------------------------------------------------------------------------------------------
def support_suite(chk, w, rule, nmax, ns=None, fixed=True):
    cs = Cases(chk, rule, w)
    SUP = w.SUP
    M = lambda name, n=0: w.method(SUP, name, n)
    regions = 0
    for n in _ns(2, nmax, ns):
        g = w.mk_grid(w.grid_values(n))
        if g.kind != "val":
            cs.expect(w.method(w.GRID, "size", 0), "Grid construction accepts a strictly increasing sequence",
                      dict(n=n), g, False, "a grid")
            continue
        grid = g.v
        # constructor: accepts exactly (0,0) or s<e<=n
        ctor = w.ctor(SUP, lambda d: len(d["params"]) == 3, "grid,s,e")
        cf = w.I.func(ctor["id"])
        reps = [0, 1, 2, n - 1, n, n + 1, n + 2, U64 - 1, U64 - 2]
        for s in sorted(set(reps)):
            for e in sorted(set(reps)):
                o = w.mk_support(grid, s, e)
                valid = (s == 0 and e == 0) or (s < e <= n)
                ok = (o.kind == "val") if valid else o.throws_lib()
                cs.expect(cf, "constructor accepts exactly (0,0) or start<end<=size", dict(n=n, start=s, end=e), o, ok,
                          "a support" if valid else "throws BSplineException")
        sups = {}
        for (s, e) in windows(n):
            o = w.mk_support(grid, s, e)
            if o.kind == "val":
                sups[(s, e)] = o.v
        for (s, e), sup in sups.items():
            size = e - s
            case = dict(n=n, window=(s, e))
            o = w.mcall(sup, "size")
            cs.expect(M("size"), "size = end-start", case, o, is_val(o, size), str(size))
            o = w.mcall(sup, "empty")
            cs.expect(M("empty"), "empty <=> no grid point", case, o, is_bool(o, size == 0), str(size == 0))
            o = w.mcall(sup, "containsIntervals")
            cs.expect(M("containsIntervals"), "containsIntervals <=> size>1", case, o, is_bool(o, size > 1),
                      str(size > 1))
            o = w.mcall(sup, "numberOfIntervals")
            cs.expect(M("numberOfIntervals"), "numberOfIntervals = max(size,1)-1", case, o,
                      is_val(o, max(size, 1) - 1), str(max(size, 1) - 1))
            o = w.mcall(sup, "getStartIndex")
            cs.expect(M("getStartIndex"), "start index", case, o, is_val(o, s), str(s))
            o = w.mcall(sup, "getEndIndex")
            cs.expect(M("getEndIndex"), "end index", case, o, is_val(o, e), str(e))
            # front / back
            o = w.mcall(sup, "front")
            cs.expect(M("front"), "front: throws iff empty, else first point of the window", case, o,
                      o.throws_lib() if size == 0 else is_grid_elem(o, s),
                      "throws BSplineException" if size == 0 else "grid[%d]" % s)
            o = w.mcall(sup, "back")
            cs.expect(M("back"), "back: throws iff empty, else last point of the window", case, o,
                      o.throws_lib() if size == 0 else is_grid_elem(o, e - 1),
                      "throws BSplineException" if size == 0 else "grid[%d]" % (e - 1))
            # iteration
            b, en = w.mcall(sup, "begin"), w.mcall(sup, "end")
            ok = b.kind == "val" and en.kind == "val" and isinstance(val(b.v), Iter) and isinstance(val(en.v), Iter)
            if ok:
                ib, ie = val(b.v), val(en.v)
                pts = w.grid_points(grid)
                ok = (ib.vec.items is pts or ib.vec.items == pts) and ie.pos - ib.pos == size and \
                     (size == 0 or (ib.pos == s and ie.pos == e))
            cs.expect(M("begin"), "[begin,end) iterates exactly the window's points", case, b, ok,
                      "iterators at positions %d..%d of the grid" % (s, e))
            # index arguments
            for idx in index_reps(n):
                c2 = dict(n=n, window=(s, e), index=idx)
                o = w.mcall(sup, "relativeFromAbsolute", idx)
                want = idx - s if s <= idx < e else None
                cs.expect(M("relativeFromAbsolute", 1), "relativeFromAbsolute: index-start iff start<=index<end, "
                                                        "else 'not contained'", c2, o, is_opt(o, want),
                          "nullopt" if want is None else "opt(%d)" % want)
                o = w.mcall(sup, "intervalIndexFromAbsolute", idx)
                want = idx - s if (s <= idx and idx + 1 < e) else None
                cs.expect(M("intervalIndexFromAbsolute", 1), "intervalIndexFromAbsolute: index-start iff the interval "
                                                             "[index,index+1] lies in the window, else 'not contained'",
                          c2, o, is_opt(o, want), "nullopt" if want is None else "opt(%d)" % want)
                o = w.mcall(sup, "absoluteFromRelative", idx)
                cs.expect(M("absoluteFromRelative", 1), "absoluteFromRelative: start+index iff index<size, else throws",
                          c2, o, is_val(o, s + idx) if idx < size else o.throws_lib(),
                          str(s + idx) if idx < size else "throws BSplineException")
                o = w.mcall(sup, "at", idx)
                cs.expect(M("at", 1), "at: throws for every index outside the view, else the point", c2, o,
                          is_grid_elem(o, s + idx) if idx < size else o.throws_lib(),
                          "grid[%d]" % (s + idx) if idx < size else "throws BSplineException")
                if idx < size:
                    o = w.mcall(sup, "operator[]", idx)
                    cs.expect(M("operator[]", 1), "operator[] addresses grid[start+index] for contained indices", c2,
                              o, is_grid_elem(o, s + idx), "grid[%d]" % (s + idx))
                    # conversions are mutually inverse on contained indices
                    o = w.mcall(sup, "absoluteFromRelative", idx)
                    if o.kind == "val":
                        o2 = w.mcall(sup, "relativeFromAbsolute", val(o.v))
                        cs.expect(M("relativeFromAbsolute", 1), "relativeFromAbsolute(absoluteFromRelative(i)) = i",
                                  c2, o2, is_opt(o2, idx), "opt(%d)" % idx)
        # pairs on the same grid, on an equal grid held in a distinct object, and on a different grid
        g2 = w.need_grid(w.grid_values(n))
        others = [("same-object", grid), ("equal-distinct-object", g2)]
        for label, gb in others:
            supsb = sups if gb is grid else {k: w.need_support(gb, *k) for k in sups}
            for wa, a in sups.items():
                for wb, b in supsb.items():
                    case = dict(n=n, a=wa, b=wb, grids=label)
                    o = w.mcall(a, "calcUnion", box(b))
                    want = spec_union(wa, wb)
                    got = w.window(val(o.v)) if o.kind == "val" and isinstance(val(o.v), Obj) else None
                    cs.expect(M("calcUnion", 1), "union = smallest window containing both (the non-empty one if the "
                                                 "other is empty)", case, o,
                              got is not None and same_window(got, want) and _on_grid(w, val(o.v), grid), str(want))
                    o = w.mcall(a, "calcIntersection", box(b))
                    want = spec_intersection(wa, wb)
                    got = w.window(val(o.v)) if o.kind == "val" and isinstance(val(o.v), Obj) else None
                    cs.expect(M("calcIntersection", 1), "intersection = common grid points (empty if none)", case, o,
                              got is not None and same_window(got, want) and _on_grid(w, val(o.v), grid), str(want))
                    o = w.mcall(a, "operator==", box(b))
                    cs.expect(M("operator==", 1), "equality <=> same grid and same window (or both empty)", case, o,
                              is_bool(o, same_window(wa, wb)), str(same_window(wa, wb)))
                    o = w.mcall(a, "operator!=", box(b))
                    cs.expect(M("operator!=", 1), "!= is the negation of ==", case, o,
                              is_bool(o, not same_window(wa, wb)), str(not same_window(wa, wb)))
                    o = w.mcall(a, "hasSameGrid", box(b))
                    cs.expect(M("hasSameGrid", 1), "hasSameGrid <=> logically equal grids", case, o, is_bool(o, True),
                              "True")
        # different grids: refused / unequal
        for label, vals in different_grids(w, n):
            gd = w.mk_grid(vals)
            if gd.kind != "val":
                continue
            nd = len(vals)
            for wa, a in sups.items():
                for wb in [(0, 0), (0, min(2, nd)), (0, nd), (nd - 2, nd)]:
                    if wb[1] > nd or wb[0] > wb[1]:
                        continue
                    ob = w.mk_support(gd.v, *wb)
                    if ob.kind != "val":
                        continue
                    b = ob.v
                    case = dict(n=n, a=wa, b=wb, other_grid=label)
                    for name in ("calcUnion", "calcIntersection"):
                        o = w.mcall(a, name, box(b))
                        cs.expect(M(name, 1), "differing grids are refused with DIFFERING_GRIDS", case, o,
                                  o.throws_lib("DIFFERING_GRIDS"), "throws BSplineException(DIFFERING_GRIDS)")
                        o = w.mcall(b, name, box(a))
                        cs.expect(M(name, 1), "differing grids are refused with DIFFERING_GRIDS", dict(case, swapped=1),
                                  o, o.throws_lib("DIFFERING_GRIDS"), "throws BSplineException(DIFFERING_GRIDS)")
                    o = w.mcall(a, "operator==", box(b))
                    cs.expect(M("operator==", 1), "supports on different grids are unequal", case, o, is_bool(o, False),
                              "False")
                    o = w.mcall(a, "hasSameGrid", box(b))
                    cs.expect(M("hasSameGrid", 1), "hasSameGrid is false for logically different grids", case, o,
                              is_bool(o, False), "False")
                    o = w.mcall(b, "hasSameGrid", box(a))
                    cs.expect(M("hasSameGrid", 1), "hasSameGrid is false for logically different grids",
                              dict(case, swapped=1), o, is_bool(o, False), "False")
    return cs.flush()


def _on_grid(w, sup, grid):
    g = w.grid_of(sup)
    if g is None:
        return False
    a, b = w.grid_points(g), w.grid_points(grid)
    return a is not None and b is not None and len(a) == len(b) and all(x.v == y.v for x, y in zip(a, b))


def different_grids(w, n):
    """Every way two grids can differ (C08): one point moved, extra point at either end or inside, prefix, suffix."""
    base = w.grid_values(n)
    out = []
    moved = list(base)
    moved[n // 2] = Sc(base[n // 2].v + 1)
    out.append(("one-point-moved", moved))
    last = list(base)
    last[-1] = Sc(base[-1].v + 1)
    out.append(("last-point-moved", last))
    first = list(base)
    first[0] = Sc(base[0].v - 1)
    out.append(("first-point-moved", first))
    out.append(("extra-point-at-end", base + [Sc(base[-1].v + 2)]))
    out.append(("extra-point-in-front", [Sc(base[0].v - 2)] + base))
    if n >= 2:
        out.append(("extra-point-inside", base[:1] + [Sc(base[0].v + 1)] + base[1:]))
    if n >= 3:
        out.append(("prefix", base[:-1]))
        out.append(("suffix", base[1:]))
    return out


# ------------------------------------------------------------------------------------------------
def grid_suite(chk, w, rule, maxlen, ns=None, fixed=True, ctors=True, accessors=True):
    cs = Cases(chk, rule, w)
    GRID = w.GRID
    M = lambda name, n=0: w.method(GRID, name, n)
    alphabet = [Sc(0), Sc(1), Sc(2), Sc(NAN)]
    ctor_tab = {
        "vector": w.ctor(GRID, lambda d: len(d["params"]) == 1 and d["params"][0]["type"].startswith("std::vector<"),
                         "vector"),
        "iterators": w.ctor(GRID, lambda d: len(d["params"]) == 2 and "__normal_iterator" in d["params"][0]["type"],
                            "begin,end"),
        "initializer_list": w.ctor(GRID, lambda d: len(d["params"]) == 1 and "initializer_list" in
                                   d["params"][0]["type"], "initializer_list"),
        "shared_ptr": w.ctor(GRID, lambda d: len(d["params"]) == 1 and d["params"][0]["type"].startswith(
            "std::shared_ptr<"), "shared_ptr"),
    }

    sp = [d for d in w.I.methods.get(w.I.find_record(GRID)["id"], ()) if d.get("ctor") and len(d["params"]) == 2 and
          "vt::InIt<" in d["params"][0]["type"]]
    if sp:
        ctor_tab["single-pass iterators"] = sp[0]

    def build(kind, seq):
        d = ctor_tab[kind]
        v = Vec(list(seq))
        if kind == "single-pass iterators":
            from .interp import SinglePass
            args = [SinglePass(dict(items=v.items, pos=0)), SinglePass(None)]
            return w.run(lambda: w.I.construct(d, args), "Grid(%s)" % kind)
        if kind == "vector":
            args = [box(v)]
        elif kind == "iterators":
            args = [Iter(v, 0), Iter(v, len(seq))]
        elif kind == "initializer_list":
            args = [box(v)]
        else:
            args = [box(SharedPtr(v))]
        return w.run(lambda: w.I.construct(d, args), "Grid(%s)" % kind)

    def valid(seq):
        if len(seq) < 2:
            return False
        for a, b in zip(seq, seq[1:]):
            if a.v == NAN or b.v == NAN or not (a.v < b.v):
                return False
        return True

    for L in (range(0, maxlen + 1) if (fixed and ctors) else ()):
        for seq in itertools.product(alphabet, repeat=L):
            for kind, d in ctor_tab.items():
                o = build(kind, seq)
                v = valid(seq)
                cf = w.I.func(d["id"])
                cs.expect(cf, "Grid(%s) succeeds iff >=2 points and every point compares < its successor" % kind,
                          dict(points=[fmt(x) for x in seq]), o, (o.kind == "val") if v else o.throws_lib(),
                          "a grid" if v else "throws BSplineException")
    # null shared_ptr
    if fixed and ctors:
        d = ctor_tab["shared_ptr"]
        o = w.run(lambda: w.I.construct(d, [box(SharedPtr(None))]), "Grid(nullptr)")
        cs.expect(w.I.func(d["id"]), "Grid(shared_ptr) refuses a null pointer", dict(points="null"), o,
                  o.throws_lib(), "throws BSplineException")
    if not accessors:
        return cs.flush()
    # accessors on valid grids
    for n in _ns(2, maxlen + 2, ns):
        vals = w.grid_values(n)
        grid = w.need_grid(vals)
        case = dict(n=n)
        o = w.mcall(grid, "size")
        cs.expect(M("size"), "size = number of points", case, o, is_val(o, n), str(n))
        o = w.mcall(grid, "empty")
        cs.expect(M("empty"), "a grid is never empty", case, o, is_bool(o, False), "False")
        o = w.mcall(grid, "front")
        cs.expect(M("front"), "front = first point", case, o, is_grid_elem(o, 0), "grid[0]")
        o = w.mcall(grid, "back")
        cs.expect(M("back"), "back = last point", case, o, is_grid_elem(o, n - 1), "grid[%d]" % (n - 1))
        b, e = w.mcall(grid, "begin"), w.mcall(grid, "end")
        ok = b.kind == "val" and e.kind == "val" and isinstance(val(b.v), Iter) and val(b.v).pos == 0 and \
            val(e.v).pos == n
        cs.expect(M("begin"), "[begin,end) iterates all points", case, b, ok, "positions 0..%d" % n)
        for idx in index_reps(n):
            c2 = dict(n=n, index=idx)
            o = w.mcall(grid, "at", idx)
            cs.expect(M("at", 1), "at: throws for every index outside the grid, else the point", c2, o,
                      is_grid_elem(o, idx) if idx < n else o.throws_lib(),
                      "grid[%d]" % idx if idx < n else "throws BSplineException")
            if idx < n:
                o = w.mcall(grid, "operator[]", idx)
                cs.expect(M("operator[]", 1), "operator[] addresses the indexed point", c2, o, is_grid_elem(o, idx),
                          "grid[%d]" % idx)
        # findElement: index iff present, else throws
        probes = [Sc(2 * i) for i in range(-1, n + 1)] + [Sc(2 * i + 1) for i in range(-1, n)] + [Sc(NAN)]
        for x in probes:
            o = w.mcall(grid, "findElement", box(x))
            present = x.v != NAN and x.v % 2 == 0 and 0 <= x.v // 2 < n
            cs.expect(M("findElement", 1), "findElement: index of an existing point, throws otherwise",
                      dict(n=n, x=fmt(x)), o, is_val(o, int(x.v // 2)) if present else o.throws_lib(),
                      str(int(x.v // 2)) if present else "throws BSplineException")
        # equality
        cp = w.run(lambda: w.I.memberwise(grid), "Grid copy").v
        peers = [("same-object", grid, True), ("copy", cp, True), ("equal-distinct-object", w.need_grid(vals), True)]
        for label, vals2 in different_grids(w, n):
            gd = w.mk_grid(vals2)
            if gd.kind == "val":
                peers.append((label, gd.v, False))
        for label, other, eq in peers:
            for a, b, sw in ((grid, other, 0), (other, grid, 1)):
                c2 = dict(n=n, other=label, swapped=sw)
                o = w.mcall(a, "operator==", box(b))
                cs.expect(M("operator==", 1), "grid equality <=> same points (pointer-equal or element-wise)", c2, o,
                          is_bool(o, eq), str(eq))
                o = w.mcall(a, "operator!=", box(b))
                cs.expect(M("operator!=", 1), "!= is the negation of ==", c2, o, is_bool(o, not eq), str(not eq))
    return cs.flush()
