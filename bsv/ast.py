"""Helpers over the extracted statement trees: call decomposition, access paths,
getter summaries.  Everything is resolved through declaration ids, never text."""
from . import config as C
from .facts import kids, strip, walk

CALL_KINDS = ("CallExpr", "CXXMemberCallExpr", "CXXOperatorCallExpr", "UserDefinedLiteral")
CTOR_KINDS = ("CXXConstructExpr", "CXXTemporaryObjectExpr")


def is_call(n):
    return n["k"] in CALL_KINDS


def is_ctor(n):
    return n["k"] in CTOR_KINDS


class Call:
    """Decomposed call: decl row, implicit object expression (or None), argument expressions."""
    __slots__ = ("node", "decl", "obj", "args", "kind")

    def __init__(self, node, decl, obj, args, kind):
        self.node, self.decl, self.obj, self.args, self.kind = node, decl, obj, args, kind

    @property
    def qn(self):
        return self.decl["qn"] if self.decl else ""

    @property
    def pqn(self):
        return self.decl.get("pqn", self.decl["qn"]) if self.decl else ""

    @property
    def name(self):
        return self.decl["name"] if self.decl else ""


def call_info(u, n):
    """Call for call / construct expressions with a resolved callee, else None."""
    k = n["k"]
    if k in CTOR_KINDS:
        d = u.decls.get(n.get("d"))
        return Call(n, d, None, kids(n), "ctor")
    if k not in CALL_KINDS:
        return None
    d = u.decls.get(n.get("callee")) if n.get("callee") is not None else None
    ch = kids(n)
    if k == "CXXMemberCallExpr":
        me = strip(ch[0]) if ch else None
        obj = kids(me)[0] if me is not None and me["k"] == "MemberExpr" and kids(me) else None
        if d is None and me is not None and me["k"] == "MemberExpr":
            d = u.decls.get(me.get("d"))
        return Call(n, d, obj, ch[1:], "member")
    if k == "CXXOperatorCallExpr":
        args = ch[1:]
        if d is not None and d.get("record") is not None and not d.get("static"):
            return Call(n, d, args[0] if args else None, args[1:], "member")
        return Call(n, d, None, args, "free")
    return Call(n, d, None, ch[1:], "free")


def calls_in(u, root):
    for n in walk(root):
        ci = call_info(u, n)
        if ci is not None:
            yield ci


# ---------------------------------------------------------------------------
# getter summaries: const member functions whose body is `return this->F;`
# ---------------------------------------------------------------------------
def _non_macro_stmts(body):
    out = []
    for s in kids(body):
        if s.get("m", "").startswith("DURING_TEST_CHECK_VALIDITY") or s.get("mo", "").startswith(
                "DURING_TEST_CHECK_VALIDITY"):
            continue
        if s["k"] == "NullStmt":
            continue
        out.append(s)
    return out


def getter_field(f):
    """Name of the field a function returns directly (`return _x;`), else None."""
    if f.body is None or f.body["k"] != "CompoundStmt":
        return None
    st = _non_macro_stmts(f.body)
    if len(st) != 1 or st[0]["k"] != "ReturnStmt" or not kids(st[0]):
        return None
    e = strip(kids(st[0])[0])
    # copy construction of the field for by-value getters (Grid getGrid() const)
    if e["k"] in CTOR_KINDS and len(kids(e)) == 1:
        e = strip(kids(e)[0])
    if e["k"] == "MemberExpr" and kids(e) and strip(kids(e)[0])["k"] == "CXXThisExpr":
        return e["n"]
    return None


def getter_table(u):
    """decl id -> field name, for every instantiated lib getter (incl. canonical decl ids)."""
    tab = {}
    for f in u.funcs:
        if f.dependent or not f.in_lib():
            continue
        if f.decl.get("record") is None or f.decl.get("static"):
            continue
        g = getter_field(f)
        if g is not None:
            tab[f.id] = g
            tab[f.decl.get("canon", f.id)] = g
    return tab


# ---------------------------------------------------------------------------
# access paths
# ---------------------------------------------------------------------------
def class_of_type(t):
    """Library class named by a canonical type string (ignoring cv/ref), else None."""
    t = t.replace("const ", "").replace("class ", "").replace("struct ", "").strip()
    while t.endswith(("&", "*", " ")):
        t = t[:-1]
    for cls in ("bspline::Spline<", "bspline::support::Support<", "bspline::support::Grid<",
                "bspline::operators::SplineOperator<", "bspline::BSplineGenerator<"):
        if t.startswith(cls):
            return cls[:-1].rsplit("::", 1)[1]
    return None


class Paths:
    """Canonical access paths of expressions inside one function.

    ('this',) | ('var', id, name) | ('f', base, field) | ('deref', base) | ('tmp', node id)
    Reference-typed locals initialised from a path are aliases of that path; getter calls are the
    field they return.  Copies into by-value locals are new roots (('var', ...))."""

    def __init__(self, u, f, getters):
        self.u, self.f, self.getters = u, f, getters
        self.alias = {}
        self._scan_aliases()

    def _scan_aliases(self):
        u = self.u
        for n in self.f.all_nodes():
            if n["k"] != "VarDecl" or not kids(n):
                continue
            d = u.decls.get(n["id"])
            t = u.types[n["t"]] if n.get("t") is not None else ""
            if not t.endswith("&"):
                continue
            p = self.path(kids(n)[0])
            if p is not None and p[0] != "tmp":
                self.alias[n["id"]] = p

    def path(self, e):
        u = self.u
        e = strip(e)
        if e is None:
            return None
        k = e["k"]
        if k == "CXXThisExpr":
            return ("this",)
        if k == "DeclRefExpr":
            if e["d"] in self.alias:
                return self.alias[e["d"]]
            return ("var", e["d"], e["n"])
        if k == "MemberExpr":
            ch = kids(e)
            if not ch:
                return None
            d = u.decls.get(e["d"])
            if d and d["k"] == "field":
                b = self.path(ch[0])
                if b is None:
                    return None
                if e.get("arrow") and b != ("this",):
                    b = ("deref", b)
                return ("f", b, e["n"])
            return None
        if k == "UnaryOperator" and e.get("op") == "*":
            b = self.path(kids(e)[0])
            return ("deref", b) if b else None
        if k in CALL_KINDS:
            ci = call_info(u, e)
            if ci and ci.decl is not None:
                g = self.getters.get(ci.decl["id"]) or self.getters.get(ci.decl.get("canon"))
                if g is not None and ci.obj is not None:
                    b = self.path(ci.obj)
                    if b is None:
                        return None
                    if _is_arrow_call(e) and b != ("this",):
                        b = ("deref", b)
                    return ("f", b, g)
                if ci.kind == "member" and ci.decl.get("op") == "*" and not ci.args and ci.obj is not None:
                    b = self.path(ci.obj)
                    return ("deref", b) if b else None
                if ci.kind == "member" and ci.decl.get("op") == "->" and ci.obj is not None:
                    return self.path(ci.obj)
                # std::move / std::forward / static_cast<const X&> are transparent
                if ci.decl["qn"].startswith(("std::move<", "std::forward<")) and ci.args:
                    return self.path(ci.args[0])
            return ("tmp", e["id"])
        if k in CTOR_KINDS:
            ch = kids(e)
            d = u.decls.get(e.get("d"))
            if len(ch) == 1 and d and (d.get("copyctor") or d.get("movector")):
                # a copy denotes the same abstract value; callers that need object identity look at the node
                return self.path(ch[0])
            return ("tmp", e["id"])
        if k in ("CXXStaticCastExpr", "CXXFunctionalCastExpr", "CStyleCastExpr") and kids(e):
            return self.path(kids(e)[0])
        return ("tmp", e["id"])

    def root(self, p):
        while p is not None and p[0] in ("f", "deref"):
            p = p[1]
        return p


def _is_arrow_call(e):
    ch = kids(e)
    if e["k"] == "CXXMemberCallExpr" and ch:
        me = strip(ch[0])
        return me["k"] == "MemberExpr" and bool(me.get("arrow"))
    return False


def fmt_path(p):
    if p is None:
        return "?"
    if p[0] == "this":
        return "this"
    if p[0] == "var":
        return p[2]
    if p[0] == "f":
        return fmt_path(p[1]) + "." + p[2]
    if p[0] == "deref":
        return "*" + fmt_path(p[1])
    return "<tmp>"
