"""Small repository-specific rules: R-DIV (scalar discipline), R-OPT (optional dereference),
R-THR (exception type), R-EX (iterator preconditions in examples), R-CFGI (configuration independence)."""
import hashlib
import os
import re

from . import config as C
from .ast import CALL_KINDS, CTOR_KINDS, call_info
from .cfg import CFG
from .facts import AnalysisBroken, kids, strip, walk

ARITH_TYPES = {"int", "unsigned int", "long", "unsigned long", "long long", "unsigned long long", "short",
               "unsigned short", "char", "signed char", "unsigned char", "float", "double", "long double", "vt::Arch"}


def _decay(t):
    t = t.replace("const ", "").replace("volatile ", "").strip()
    while t.endswith(("&", " ")):
        t = t[:-1]
    return t


# ------------------------------------------------------------------------------------------------
# R-DIV
# ------------------------------------------------------------------------------------------------
def r_div(chk, units):
    """In bspline::operators a value of the user's scalar type S may only be stored, forwarded into a
    ScalarMultiplication, or converted with static_cast<T> at application time.  Arithmetic performed in S
    (integer division for S=int, wrap-around for unsigned) changes the denoted operator."""
    rule = "R-DIV"
    chk.rule(rule, "in namespace bspline::operators no arithmetic is performed in the user's scalar type S: a scalar "
                   "reaches the coefficients only through static_cast<T> when the operator is applied (necessary for "
                   "(A/c)s = (As)/c and (A-c)s = As - cs with integer or unsigned c)")
    sites = {}
    for u in units:
        # pattern parameter types, by pattern location
        pat_params = {}
        pat_depth = {}
        pat_fields = {}
        pat_rtype = {}
        for d in u.decls.values():
            if d["k"] == "fn" and d.get("dependent") and C.in_lib(d.get("pfile", "")):
                # several dependent declarations share a pattern location (the primary template and the member templates
                # of partially instantiated classes, whose parameter depth is renumbered): keep the primary one, i.e. the
                # one mentioning the deepest template parameter
                key = (d["pfile"], d["pline"])
                types = [p["type"] for p in d["params"]]
                depth = max([int(x) for x in re.findall(r"type-parameter-(\d+)-\d+", " ".join(types + [d.get("rtype", "")]))]
                            or [-1])
                if key not in pat_params or depth > pat_depth.get(key, -2):
                    pat_params[key] = types
                    pat_rtype[key] = d.get("rtype", "")
                    pat_depth[key] = depth
            if d["k"] == "rec" and d.get("dependent") and C.in_lib(d.get("file", "")):
                pat_fields[(d["file"], d["line"])] = {f["name"]: f["type"] for f in d.get("fields", ())}
        for f in u.funcs:
            if f.dependent or not f.in_lib() or not ("/operators/" in f.decl["pfile"] or
                                                      any(f.decl["pfile"].startswith(x) for x in C.LIB_EXTRA)):
                continue
            pp = pat_params.get(f.pkey)
            scalar_ids = {}
            if pp:
                # type parameters that are the spline's data type T (element type of arrays / grids / splines)
                data_params = set()
                sigs = pp + [pat_rtype.get(f.pkey, "")]
                # a lambda sees the template parameters of the functions it is written in: their signatures say which
                # parameter is the data type ([&factor](T &el) { el *= factor; } inside scale(std::array<T, n> &, ..))
                par, hops = f.decl.get("lambdaparent"), 0
                while par is not None and hops < 4:
                    pd = u.decls.get(par)
                    if pd is None:
                        break
                    pk = (pd.get("pfile"), pd.get("pline"))
                    sigs = sigs + pat_params.get(pk, []) + [pat_rtype.get(pk, "")]
                    par, hops = pd.get("lambdaparent"), hops + 1
                for pt in sigs:
                    for m in re.finditer(r"(?:array|Grid|Spline|vector)<(type-parameter-\d+-\d+)", pt):
                        data_params.add(m.group(1))
                for p, pt in zip(f.decl["params"], pp):
                    m = re.search(r"type-parameter-\d+-\d+", pt)
                    if m and m.group(0) not in data_params and _decay(pt) == m.group(0) and \
                            _decay(p["type"]) in ARITH_TYPES and "&&" not in pt:
                        scalar_ids[p["id"]] = p["name"]
            # fields of the enclosing class whose pattern type is a template parameter
            rec = u.decls.get(f.decl.get("record")) if f.decl.get("record") is not None else None
            scalar_fields = {}
            if rec is not None:
                pf = pat_fields.get((rec.get("pfile"), rec.get("pline")), {})
                for fd in rec.get("fields", ()):
                    pt = pf.get(fd["name"], "")
                    if "type-parameter" in pt and _decay(fd["type"]) in ARITH_TYPES:
                        scalar_fields[fd["id"]] = fd["name"]
            if not scalar_ids and not scalar_fields:
                continue

            def is_scalar_entity(n):
                n0 = n
                while n0 is not None and n0["k"] in ("ImplicitCastExpr", "ParenExpr") and n0.get("ck") in (
                        None, "LValueToRValue", "NoOp"):
                    n0 = n0["ch"][0]
                if n0 is None:
                    return None
                if n0["k"] == "DeclRefExpr" and n0["d"] in scalar_ids:
                    return scalar_ids[n0["d"]]
                if n0["k"] == "MemberExpr" and n0["d"] in scalar_fields:
                    return scalar_fields[n0["d"]]
                return None

            for n in f.all_nodes():
                k = n["k"]
                bad = None
                if k in ("BinaryOperator", "CompoundAssignOperator") and n.get("op") in (
                        "+", "-", "*", "/", "%", "<<", ">>", "+=", "-=", "*=", "/=", "%="):
                    for c in kids(n):
                        e = is_scalar_entity(c)
                        if e:
                            bad = (e, "binary %s" % n["op"])
                elif k == "UnaryOperator" and n.get("op") in ("-", "+", "~", "++", "--"):
                    e = is_scalar_entity(kids(n)[0])
                    if e:
                        bad = (e, "unary %s" % n["op"])
                elif k == "CXXOperatorCallExpr" and n.get("op") in ("+", "-", "*", "/", "+=", "-=", "*=", "/="):
                    ci = call_info(u, n)
                    if ci and ci.decl is not None and not ci.decl.get("inroot"):
                        for c in ([ci.obj] if ci.obj is not None else []) + list(ci.args):
                            e = is_scalar_entity(c)
                            if e:
                                bad = (e, "operator%s of the scalar type" % n["op"])
                key = (f.pkey, f.pqn)
                st = sites.setdefault(key, dict(n=0, f=f))
                if k in ("DeclRefExpr", "MemberExpr") and (n.get("d") in scalar_ids or n.get("d") in scalar_fields):
                    st["n"] += 1
                if bad:
                    chk.bad(rule, f.loc(n), f.pqn, "S-arithmetic:%s:%s" % (bad[0], bad[1].replace(" ", "")),
                            "the scalar '%s' takes part in %s evaluated in the user's scalar type (%s) instead of "
                            "being converted with static_cast<T> when the operator is applied" % (
                                bad[0], bad[1], u.types[n["t"]] if n.get("t") is not None else "?"),
                            witness=dict(instantiation=f.qn, unit=u.name))
    nsites = 0
    for (pkey, pqn), st in sorted(sites.items()):
        if st["n"]:
            nsites += 1
            chk.ok(rule, "%s:%d" % (C.rel(pkey[0]), pkey[1]),
                   "%s: %d use(s) of a scalar of type S, none in S-typed arithmetic" % (pqn, st["n"]), key=pkey)
    return nsites


# ------------------------------------------------------------------------------------------------
# R-OPT
# ------------------------------------------------------------------------------------------------
def r_opt(chk, units, scope=None):
    """Every *opt / opt-> on a std::optional is dominated by the true edge of a test of that variable."""
    rule = "R-OPT"
    chk.rule(rule, "every unchecked dereference (*opt, opt->) of a std::optional local is dominated by a test of "
                   "that variable on the has-value edge; .value() is accepted (it throws)")
    seen = {}
    for u in units:
        for f in u.funcs:
            if f.dependent or not f.in_repo() or f.cfg is None:
                continue
            if scope and not scope(f):
                continue
            derefs = []
            for n in f.all_nodes():
                if n["k"] != "CXXOperatorCallExpr" or n.get("op") not in ("*", "->"):
                    continue
                ci = call_info(u, n)
                if ci is None or ci.decl is None or not ci.decl.get("recqn", "").startswith("std::optional<"):
                    continue
                obj = strip(ci.obj) if ci.obj is not None else None
                derefs.append((n, obj))
            if not derefs:
                continue
            g = CFG(f)
            for n, obj in derefs:
                key = (f.pkey, n.get("l"), n.get("c"))
                ok = False
                why = "the optional is not a plain local variable"
                if obj is not None and obj["k"] == "DeclRefExpr":
                    var = obj["d"]
                    ok, why = _dominated_by_test(u, f, g, n, var)
                if ok:
                    if key not in seen:
                        seen[key] = True
                        chk.ok(rule, f.loc(n), "%s: dereference of optional '%s' is guarded (%s)" % (
                            f.pqn, obj.get("n"), why), key=key)
                else:
                    chk.bad(rule, f.loc(n), f.pqn, "unchecked-optional:%s" % (obj.get("n") if obj else "?"),
                            "std::optional dereferenced without a dominating has-value test (%s)" % why,
                            witness=dict(instantiation=f.qn, unit=u.name))
    return len(seen)


def _tests_var(u, cond, var, f=None, depth=0):
    """polarity: True if `cond` true implies var has a value; False if cond false implies it; None otherwise."""
    e = strip(cond)
    if e is None:
        return None
    if e["k"] == "UnaryOperator" and e.get("op") == "!":
        r = _tests_var(u, kids(e)[0], var, f, depth)
        return (not r) if r is not None else None
    if e["k"] == "DeclRefExpr" and f is not None and depth < 3:
        # a named test: `const bool inThis = opt.has_value(); ... if (inThis)` (const local, so it still says what it said)
        for n in f.all_nodes():
            if n["k"] == "VarDecl" and n["id"] == e["d"] and u.types[n["t"]] == "const bool" and kids(n):
                return _tests_var(u, kids(n)[0], var, f, depth + 1)
        return None
    if e["k"] == "CXXMemberCallExpr":
        ci = call_info(u, e)
        if ci and ci.decl is not None and ci.decl["name"] in ("operator bool", "has_value") and ci.obj is not None:
            o = strip(ci.obj)
            if o["k"] == "DeclRefExpr" and o["d"] == var:
                return True
    if e["k"] in ("ImplicitCastExpr", "CXXStaticCastExpr") and kids(e):
        return _tests_var(u, kids(e)[0], var, f, depth)
    return None


def _dominated_by_test(u, f, g, node, var):
    pos = g.position(node["id"])
    if pos is None:
        return False, "dereference not found in the CFG"
    dom = g.dominators()
    for b in dom.get(pos[0], ()):
        if b == pos[0]:
            continue
        c = g.cond(b)
        if c is None or len(g.succ[b]) != 2:
            continue
        pol = _tests_var(u, c, var, f)
        if pol is None:
            continue
        good = g.blocks[b]["succ"][0] if pol else g.blocks[b]["succ"][1]
        other = g.blocks[b]["succ"][1] if pol else g.blocks[b]["succ"][0]
        # the dereference must be unreachable from the no-value edge without passing the test block again
        reach_bad = g.reachable(start=other, cut_blocks=[b]) if other is not None else set()
        if pos[0] not in reach_bad or other is None:
            # no assignment to the variable between test and use that could empty it: optionals are const locals
            return True, "test at line %s" % c.get("l")
    return False, "no dominating test of the variable"


# ------------------------------------------------------------------------------------------------
# R-THR
# ------------------------------------------------------------------------------------------------
def r_thr(chk, units):
    rule = "R-THR"
    chk.rule(rule, "every throw expression in include/bspline constructs bspline::exceptions::BSplineException")
    seen = set()
    for u in units:
        for f in u.funcs:
            if f.dependent or not f.in_lib():
                continue
            for n in f.all_nodes():
                if n["k"] != "CXXThrowExpr":
                    continue
                key = (f.pkey, n.get("l"), n.get("c"))
                cls = None
                for x in walk(n):
                    if x["k"] in CTOR_KINDS:
                        d = u.decls.get(x.get("d"))
                        if d:
                            cls = d.get("recqn")
                            break
                if not kids(n):
                    cls = "<rethrow>"
                if cls == "bspline::exceptions::BSplineException":
                    if key not in seen:
                        seen.add(key)
                        chk.ok(rule, f.loc(n), "%s throws BSplineException" % f.pqn, key=key)
                else:
                    chk.bad(rule, f.loc(n), f.pqn, "throws:%s" % cls,
                            "library code throws %s instead of the library's exception type" % cls,
                            witness=dict(instantiation=f.qn))
    return len(seen)


# ------------------------------------------------------------------------------------------------
# R-EX
# ------------------------------------------------------------------------------------------------
END_NAMES = {"end", "cend"}


def _is_end_of(u, e, recv_path):
    """e is syntactically the past-the-end iterator of the receiver (c.end(), c.cend(), std::end(c))."""
    e = strip(e)
    while e is not None and e["k"] in CTOR_KINDS and len(kids(e)) == 1:
        e = strip(kids(e)[0])
    if e is None:
        return False
    ci = call_info(u, e)
    if ci is None or ci.decl is None:
        return False
    if ci.kind == "member" and ci.decl["name"] in END_NAMES and ci.obj is not None:
        return _same_expr(strip(ci.obj), recv_path)
    if ci.kind == "free" and ci.decl["qn"].split("<")[0] in ("std::end", "std::cend") and ci.args:
        return _same_expr(strip(ci.args[0]), recv_path)
    return False


def _same_expr(a, b):
    if a is None or b is None:
        return False
    if a["k"] != b["k"]:
        return False
    if a["k"] == "DeclRefExpr":
        return a["d"] == b["d"]
    if a["k"] == "MemberExpr":
        return a["d"] == b["d"] and _same_expr(strip(kids(a)[0]) if kids(a) else None,
                                               strip(kids(b)[0]) if kids(b) else None)
    if a["k"] == "CXXThisExpr":
        return True
    return False


def r_ex(chk, units, scope):
    rule = "R-EX"
    chk.rule(rule, "in the example / readme programs the iterator passed to erase / dereferenced is never "
                   "syntactically the past-the-end iterator of the same container (c.erase(c.end()), *c.end())")
    n_sites = 0
    for u in units:
        for f in u.funcs:
            if f.dependent or not scope(f):
                continue
            for n in f.all_nodes():
                ci = call_info(u, n) if n["k"] in CALL_KINDS else None
                if ci is None or ci.decl is None:
                    continue
                name = ci.decl["name"]
                rq = ci.decl.get("recqn", "")
                if ci.kind == "member" and name == "erase" and rq.startswith(("std::vector<", "std::deque<",
                                                                                "std::list<", "std::basic_string<",
                                                                                "std::__cxx11::")) and ci.obj is not None:
                    n_sites += 1
                    recv = strip(ci.obj)
                    key = (f.pkey, n.get("l"), n.get("c"))
                    if len(ci.args) == 1 and _is_end_of(u, ci.args[0], recv):
                        chk.bad(rule, f.loc(n), f.pqn, "erase(end()):%s" % (recv.get("n") or "?"),
                                "erase() is called with the container's own past-the-end iterator, which is not "
                                "dereferenceable: undefined behaviour", witness=dict(function=f.qn, unit=u.name))
                    else:
                        chk.ok(rule, f.loc(n), "%s: erase() argument is not the receiver's end()" % f.pqn, key=key)
                elif n["k"] == "CXXOperatorCallExpr" and n.get("op") == "*" and ci.obj is not None:
                    inner = strip(ci.obj)
                    ci2 = call_info(u, inner) if inner is not None and inner["k"] in CALL_KINDS else None
                    if ci2 and ci2.decl is not None and ci2.kind == "member" and ci2.decl["name"] in END_NAMES:
                        n_sites += 1
                        chk.bad(rule, f.loc(n), f.pqn, "deref(end())",
                                "the past-the-end iterator is dereferenced: undefined behaviour",
                                witness=dict(function=f.qn, unit=u.name))
    return n_sites


# ------------------------------------------------------------------------------------------------
# R-EX.init: Eigen objects get defined coefficients when they are created
# ------------------------------------------------------------------------------------------------
_EIGEN = ("Eigen::Matrix<", "Eigen::Array<")
_WHOLE_INIT = {"setZero", "setConstant", "setOnes", "setIdentity", "fill", "setRandom", "setLinSpaced", "operator=",
               "operator<<"}
_UNCOND_BREAKERS = {"IfStmt", "ContinueStmt", "BreakStmt", "SwitchStmt", "ConditionalOperator", "GotoStmt", "ReturnStmt",
                    "CXXTryStmt"}


def _is_int_type(t):
    t = t.replace("const ", "").strip(" &")
    return t in ("int", "long", "unsigned long", "unsigned int", "long long", "unsigned long long", "short",
                 "unsigned short", "size_t", "std::size_t") or t.startswith("Eigen::Index")


def _size_only_ctor(u, e):
    """e constructs an Eigen dense object from sizes only (coefficients left indeterminate)."""
    x = e
    while x is not None and x["k"] in ("ExprWithCleanups", "ImplicitCastExpr", "CXXBindTemporaryExpr",
                                       "MaterializeTemporaryExpr", "CXXFunctionalCastExpr", "ParenExpr"):
        x = kids(x)[0] if kids(x) else None
    if x is None or x["k"] not in CTOR_KINDS:
        return False
    d = u.decls.get(x.get("d"))
    rq = (d or {}).get("recqn", "") or u.types[x["t"]]
    if not rq.startswith(_EIGEN):
        return False
    args = [a for a in kids(x) if a is not None and a["k"] != "CXXDefaultArgExpr"]
    if not args:
        return False   # default construction: an empty (0 x 0) object for dynamic sizes, nothing to read
    return all(_is_int_type(u.types[strip(a)["t"]]) for a in args) and len(args) <= 2


def _mentions(n, var_id):
    return any(m["k"] == "DeclRefExpr" and m.get("d") == var_id for m in walk(n))


def r_eigen_init(chk, units, scope):
    rule = "R-EX.init"
    chk.rule(rule, "an Eigen matrix / vector created in the repository never starts with indeterminate coefficients: it is "
                   "initialised from an expression (Zero, Constant, a result), or the size-only constructor / resize() "
                   "is immediately followed by a whole-object initialiser (setZero, fill, =, <<) or an unconditional "
                   "element-wise fill loop")
    n_obj = 0
    for u in units:
        for f in u.funcs:
            if f.dependent or not scope(f) or f.body is None:
                continue
            # member initialisers
            for it in f.inits:
                init = it.get("init")
                if init is not None and _size_only_ctor(u, init):
                    n_obj += 1
                    # accepted: the constructor body initialises the member as a whole before anything else touches it
                    fid = it.get("field")
                    mention = lambda n_: any(m_["k"] == "MemberExpr" and m_.get("d") == fid for m_ in walk(n_))
                    nxt = next((s_ for s_ in (kids(f.body) if f.body["k"] == "CompoundStmt" else [f.body])
                                if s_ is not None and mention(s_)), None)
                    if nxt is not None:
                        x = strip(nxt) if nxt["k"] not in ("ForStmt", "CXXForRangeStmt", "WhileStmt") else None
                        ci = call_info(u, x) if x is not None and x["k"] in CALL_KINDS else None
                        if ci and ci.decl is not None and ci.decl["name"] in _WHOLE_INIT:
                            recv = strip(ci.obj) if ci.obj is not None else (strip(ci.args[0]) if ci.args else None)
                            if recv is not None and recv["k"] == "MemberExpr" and recv.get("d") == fid:
                                continue
                        if nxt["k"] in ("ForStmt", "CXXForRangeStmt") and not any(
                                m_["k"] in _UNCOND_BREAKERS for m_ in walk(nxt)):
                            continue
                    chk.bad(rule, f.where(), f.pqn, "size-only:%s" % it.get("name", "?"),
                            "member %s is an Eigen object constructed from its sizes only: its coefficients are "
                            "indeterminate until every one of them is written" % it.get("name", "?"),
                            witness=dict(function=f.qn, unit=u.name))
            for blk in f.all_nodes():
                if blk["k"] != "CompoundStmt":
                    continue
                stmts = kids(blk)
                for i, st in enumerate(stmts):
                    if st is None:
                        continue
                    cands = []
                    if st["k"] == "DeclStmt":
                        for v in kids(st):
                            if v is not None and v["k"] == "VarDecl" and u.types[v["t"]].replace("const ", "").startswith(
                                    _EIGEN):
                                n_obj += 1
                                if kids(v) and _size_only_ctor(u, kids(v)[0]):
                                    cands.append((v["id"], v.get("n"), "constructed from its sizes only"))
                    else:
                        x = strip(st) if st["k"] not in ("ForStmt", "WhileStmt", "IfStmt", "CompoundStmt") else None
                        ci = call_info(u, x) if x is not None and x["k"] in CALL_KINDS else None
                        if ci and ci.decl is not None and ci.kind == "member" and ci.decl["name"] in (
                                "resize", "conservativeResize") and ci.decl.get("recqn", "").startswith(
                                ("Eigen::",)) and ci.obj is not None:
                            r = strip(ci.obj)
                            if r is not None and r["k"] == "DeclRefExpr":
                                cands.append((r["d"], r.get("n"), "resized"))
                    for vid, vname, how in cands:
                        nxt = next((s_ for s_ in stmts[i + 1:] if s_ is not None and _mentions(s_, vid)), None)
                        ok = False
                        if nxt is not None:
                            x = strip(nxt) if nxt["k"] not in ("ForStmt", "CXXForRangeStmt", "WhileStmt") else None
                            ci = call_info(u, x) if x is not None and x["k"] in CALL_KINDS else None
                            if ci and ci.decl is not None and ci.decl["name"] in _WHOLE_INIT:
                                recv = strip(ci.obj) if ci.obj is not None else (strip(ci.args[0]) if ci.args else None)
                                ok = recv is not None and recv["k"] == "DeclRefExpr" and recv["d"] == vid
                            elif nxt["k"] in ("ForStmt", "CXXForRangeStmt"):
                                ok = not any(m["k"] in _UNCOND_BREAKERS for m in walk(nxt))
                        if not ok:
                            chk.bad(rule, f.loc(st), f.pqn, "indeterminate:%s" % vname,
                                    "Eigen object '%s' is %s (indeterminate coefficients) and is not initialised as a "
                                    "whole, nor filled by an unconditional loop, before it is used: coefficients that "
                                    "are not written are read uninitialised" % (vname, how),
                                    witness=dict(function=f.qn, unit=u.name))
    chk.ok(rule, "include/bspline, examples, readme", "%d Eigen objects: all start with defined coefficients" % n_obj,
           key="eigen")
    return n_obj


# ------------------------------------------------------------------------------------------------
# R-LIFE.seq: an argument moved into a by-value parameter while a sibling argument reads the same object
# ------------------------------------------------------------------------------------------------
def r_arg_sequence(chk, units, scope):
    rule = "R-LIFE.seq"
    chk.rule(rule, "no call moves an object into a by-value parameter (the move constructor runs while the arguments "
                   "are initialised) and reads the same object in a sibling argument: argument initialisations are "
                   "indeterminately sequenced, so the read sees the moved-from object with some compilers")
    n_calls = 0
    for u in units:
        for f in u.funcs:
            if f.dependent or not scope(f):
                continue
            for n in f.all_nodes():
                if n["k"] not in CALL_KINDS and n["k"] not in CTOR_KINDS:
                    continue
                if n["k"] in CALL_KINDS:
                    ci = call_info(u, n)
                    if ci is None or ci.decl is None:
                        continue
                    d, args = ci.decl, list(ci.args)
                    others = ([ci.obj] if ci.obj is not None else [])
                else:
                    d = u.decls.get(n.get("d"))
                    if d is None:
                        continue
                    args, others = list(kids(n)), []
                params = d.get("params", [])
                if len(args) < 2 or d["qn"].startswith(("std::move<", "std::forward<")):
                    continue
                n_calls += 1
                for i, a in enumerate(args):
                    if a is None or i >= len(params) or params[i]["type"].endswith("&"):
                        continue   # a reference parameter: nothing is moved during argument initialisation
                    moved = _moved_var(u, a)
                    if moved is None:
                        continue
                    for j, b in enumerate(args + others):
                        if b is None or j == i:
                            continue
                        if _mentions(b, moved[0]):
                            chk.bad(rule, f.loc(n), f.pqn, "moved-and-read:%s" % moved[1],
                                    "'%s' is moved into the by-value parameter %d of %s while another argument of the "
                                    "same call reads it: the order of the two is unspecified (clang evaluates left to "
                                    "right: the read sees the moved-from object)" % (moved[1], i + 1, d["qn"][:80]),
                                    witness=dict(function=f.qn, unit=u.name))
                            break
    chk.ok(rule, "include/bspline, examples, readme", "%d calls with >= 2 arguments: none moves and reads one object"
           % n_calls, key="seq")
    return n_calls


def r_forward_move(chk, units, scope):
    """R-OWN.fwdmove: std::move applied to a FORWARDING reference.  A parameter declared `P &&` with P deduced is an
    lvalue reference whenever the caller passes a named object; std::move on it moves out of the caller's object (the
    library disturbs an operand: C14).  Decided on the instantiations: a parameter whose pattern type is a bare template
    type parameter with `&&` and whose instantiated type is a NON-CONST LVALUE reference (reference collapsing happened),
    handed to std::move.  std::forward<P> is the accepted idiom; a pattern type `T &&` instantiated as `X &&` is an
    ordinary rvalue reference."""
    rule = "R-OWN.fwdmove"
    chk.rule(rule, "no std::move of a forwarding-reference parameter that is bound to the caller's lvalue (pattern type "
                   "`P &&`, instantiated as a non-const lvalue reference): the callee would move from a named object of "
                   "the caller; forwarding references are passed on with std::forward")
    n_params = 0
    for u in units:
        pat_params = {}
        pat_depth = {}
        for d in u.decls.values():
            if d["k"] == "fn" and d.get("dependent"):
                key = (d.get("pfile"), d.get("pline"))
                types = [p_["type"] for p_ in d["params"]]
                depth = max([int(x) for x in re.findall(r"type-parameter-(\d+)-\d+", " ".join(types))] or [-1])
                if key not in pat_params or depth > pat_depth.get(key, -2):
                    pat_params[key], pat_depth[key] = types, depth
        for f in u.funcs:
            if f.dependent or not scope(f):
                continue
            pp = pat_params.get(f.pkey)
            if not pp or len(pp) != len(f.decl["params"]):
                continue
            fwd = {}
            for p_, pt in zip(f.decl["params"], pp):
                if re.fullmatch(r"type-parameter-\d+-\d+ &&", pt.strip()):
                    n_params += 1
                    it = p_["type"].strip()
                    if it.endswith("&") and not it.endswith("&&") and not it.startswith("const "):
                        fwd[p_["id"]] = p_.get("name") or "?"
            if not fwd:
                continue
            for n in f.all_nodes():
                if n["k"] not in CALL_KINDS:
                    continue
                ci = call_info(u, n)
                if ci is None or ci.decl is None or not ci.decl["qn"].startswith("std::move<") or not ci.args:
                    continue
                r = strip(ci.args[0])
                if r is not None and r["k"] == "DeclRefExpr" and r.get("d") in fwd:
                    chk.bad(rule, f.loc(n), f.pqn, "fwdmove:%s" % fwd[r["d"]],
                            "std::move(%s): '%s' is a forwarding reference, bound to the caller's lvalue in the instantiation "
                            "%s - the caller's object is moved from" % (fwd[r["d"]], fwd[r["d"]], f.qn[:140]),
                            witness=dict(function=f.qn, unit=u.name))
    chk.ok(rule, "include/bspline", "%d forwarding-reference parameters in the instantiated library functions: none is "
           "handed to std::move while bound to an lvalue" % n_params, key="fwdmove")
    return n_params


def _moved_var(u, a):
    """(decl id, name) if the argument expression move-constructs the parameter from std::move(<variable>)."""
    for m in walk(a):
        if m["k"] in CALL_KINDS:
            ci = call_info(u, m)
            if ci and ci.decl is not None and ci.decl["qn"].startswith("std::move<") and ci.args:
                r = strip(ci.args[0])
                if r is not None and r["k"] == "DeclRefExpr":
                    # only if the moved value initialises the parameter itself (the argument IS the move, possibly
                    # wrapped in the implicit move construction)
                    top = a
                    while top is not None and top["k"] in ("ExprWithCleanups", "ImplicitCastExpr", "CXXBindTemporaryExpr",
                                                           "MaterializeTemporaryExpr", "CXXConstructExpr", "ParenExpr"):
                        top = kids(top)[0] if kids(top) else None
                    if top is m:
                        return (r["d"], r.get("n"))
    return None


# ------------------------------------------------------------------------------------------------
# R-QUAD: the numerical integration uses the rule size it was asked for and computes in the scalar type
# ------------------------------------------------------------------------------------------------
def r_quad(chk, units):
    rule = "R-QUAD"
    chk.rule(rule, "every instantiation integrate<n, T, F, ...> applies a Gauss-Legendre rule gauss<T', N> with N >= n "
                   "points and T' = T (fewer points lose exactness for degree 2n-1), and returns the spline's scalar "
                   "type T whatever the weight's result type is (accumulating in a narrower type truncates)")
    n_inst = 0
    for u in units:
        for f in u.funcs:
            if f.dependent or f.pqn != "bspline::integration::integrate" or not f.in_lib():
                continue
            m = re.match(r"bspline::integration::integrate<(\d+)U?L?, ([^,]+),", f.qn)
            if not m:
                raise AnalysisBroken("cannot read the template arguments of %s" % f.qn[:120])
            want_n, T = int(m.group(1)), m.group(2).strip()
            n_inst += 1
            rules = []
            # the rule may be applied in a lambda written inside integrate() or in a library helper it calls (summation
            # helpers taking a per-interval callable): follow the resolved call closure within the repository
            todo, seen_fn = [f], {f.id}
            while todo:
                g_ = todo.pop()
                for n in g_.all_nodes():
                    if n["k"] == "LambdaExpr" and n.get("callop") is not None:
                        lf = u.by_id.get(n["callop"])
                        if lf is not None and lf.id not in seen_fn:
                            seen_fn.add(lf.id)
                            todo.append(lf)
                    ci = call_info(u, n) if n["k"] in CALL_KINDS else None
                    if ci is None or ci.decl is None:
                        continue
                    rq = ci.decl.get("recqn", "")
                    g = re.match(r"boost::math::quadrature::gauss(?:_kronrod)?<(.+), (\d+)U?L?(?:, .*)?>$", rq)
                    if g and ci.decl["name"] == "integrate":
                        rules.append((g.group(1).strip(), int(g.group(2)), n if g_ is f else None))
                        continue
                    callee = u.func_of(ci.decl["id"]) if hasattr(u, "func_of") else None
                    if callee is not None and not callee.dependent and callee.in_lib() and callee.id not in seen_fn \
                            and len(seen_fn) < 40:
                        seen_fn.add(callee.id)
                        todo.append(callee)
            if not rules:
                raise AnalysisBroken("anchor vanished: %s applies no boost Gauss rule" % f.qn[:100])
            bad = False
            for (gt, gn, node) in rules:
                if gn < want_n:
                    bad = True
                    chk.bad(rule, f.loc(node) if node is not None else f.where(), f.pqn, "rule-size:%d<%d" % (gn, want_n),
                            "integrate<%d> applies a %d-point Gauss-Legendre rule: the documented exactness (weight * "
                            "product of degree <= %d) needs at least the %d points that were asked for" % (
                                want_n, gn, 2 * want_n - 1, want_n), witness=dict(instantiation=f.qn, unit=u.name))
                if gt != T:
                    bad = True
                    chk.bad(rule, f.loc(node) if node is not None else f.where(), f.pqn, "rule-type:%s" % gt,
                            "the Gauss rule is instantiated for %s, not for the scalar type %s of the splines" % (gt, T),
                            witness=dict(instantiation=f.qn, unit=u.name))
            rt = f.decl.get("rtype", "")
            if rt != T:
                bad = True
                chk.bad(rule, f.where(), f.pqn, "result-type:%s" % rt,
                        "this instantiation returns %s instead of the scalar type %s: the sum over the intervals is "
                        "formed in the weight's result type (an integer- or float-valued weight truncates every "
                        "contribution)" % (rt, T), witness=dict(instantiation=f.qn, unit=u.name))
            if not bad:
                chk.ok(rule, f.where(), "integrate<%d, %s>: %d-point rule in %s, result %s" % (
                    want_n, T, rules[0][1], rules[0][0], rt), key=(f.qn,))
    return n_inst


# ------------------------------------------------------------------------------------------------
# R-CFGI
# ------------------------------------------------------------------------------------------------
MACROS = ("DURING_TEST_CHECK_VALIDITY", "DURING_TEST_CHECK_VALIDITY_OF")


def _shape(u, n, out):
    """Structural hash input of a statement tree with the self-check macro statements removed."""
    if n is None:
        out.append("~")
        return
    if n.get("m") in MACROS or n.get("mo") in MACROS:
        return
    k = n["k"]
    tag = [k]
    for a in ("op", "v", "ck", "n", "cv", "constexpr", "arrow", "postfix"):
        if a in n:
            tag.append("%s=%s" % (a, n[a]))
    if "t" in n:
        tag.append(u.types[n["t"]])
    if k in CALL_KINDS or k in CTOR_KINDS:
        d = u.decls.get(n.get("callee") if k in CALL_KINDS else n.get("d"))
        if d:
            tag.append(d["qn"])
    out.append("(" + "|".join(tag))
    for c in n.get("ch", ()):
        _shape(u, c, out)
    out.append(")")


def shape_hash(u, f):
    out = []
    for it in f.inits:
        out.append("I:%s" % it.get("name", it.get("base", "")))
        _shape(u, it.get("init"), out)
    _shape(u, f.body, out)
    return hashlib.sha256("".join(out).encode()).hexdigest()


def r_cfgi(chk, unit_on, unit_off):
    """The library computes the same thing with and without BSPLINE_ADD_TEST_CHECKS."""
    chk.rule("R-CFGI.pp", "BSPLINE_ADD_TEST_CHECKS is tested by the preprocessor only in internal/test_checks.h")
    chk.rule("R-CFGI.macro", "with the self-checks on, every statement produced by the two macros is exactly a call "
                             "of a const member function checkValidity() (no other effect)")
    chk.rule("R-CFGI.pure", "the call closure of every checkValidity() writes no object state: only reads, "
                            "comparisons and throw")
    chk.rule("R-CFGI.same", "every instantiated library function has the same statement structure in both "
                            "configurations once the macro statements are removed")
    # (pp) preprocessor scan of the library and examples
    pat = re.compile(r"^\s*#\s*(if|ifdef|ifndef|elif)\b.*\bBSPLINE_ADD_TEST_CHECKS\b")
    n_pp = 0
    for dp, _, fn in os.walk(os.path.join(C.REPO, "include")):
        for fname in sorted(fn):
            p = os.path.join(dp, fname)
            for i, ln in enumerate(open(p, errors="replace"), 1):
                if pat.search(ln) or re.search(r"defined\s*\(?\s*BSPLINE_ADD_TEST_CHECKS", ln):
                    n_pp += 1
                    if p.endswith("internal/test_checks.h"):
                        chk.ok("R-CFGI.pp", "%s:%d" % (C.rel(p), i), "the one sanctioned conditional", key=(p, i))
                    else:
                        chk.bad("R-CFGI.pp", "%s:%d" % (C.rel(p), i), "(preprocessor)", "ifdef:BSPLINE_ADD_TEST_CHECKS",
                                "code outside test_checks.h is conditional on BSPLINE_ADD_TEST_CHECKS, so the two "
                                "configurations compile different library code")
    if n_pp == 0:
        raise AnalysisBroken("anchor vanished: no conditional on BSPLINE_ADD_TEST_CHECKS found in include/")
    # (macro) statements produced by the macros
    n_macro = 0
    check_fns = {}
    for f in unit_on.funcs:
        if f.dependent or not f.in_lib():
            continue
        for n in f.all_nodes():
            if n.get("m") in MACROS or n.get("mo") in MACROS:
                # top-most macro node: parent is not from the macro
                p = f.parent(n)
                if p is not None and (p.get("m") in MACROS or p.get("mo") in MACROS):
                    continue
                n_macro += 1
                ci = call_info(unit_on, n) if n["k"] in CALL_KINDS else None
                key = (f.pkey, n.get("l"), n.get("c"))
                if ci is not None and ci.decl is not None and ci.kind == "member" and ci.decl.get("const") and \
                        ci.decl["name"] == "checkValidity" and not ci.args and ci.decl.get("rtype") == "void":
                    chk.ok("R-CFGI.macro", f.loc(n), "%s: macro statement is a const checkValidity() call" % f.pqn,
                           key=key)
                    cf = unit_on.func_of(ci.decl["id"])
                    if cf is not None:
                        check_fns[cf.pkey] = cf
                else:
                    chk.bad("R-CFGI.macro", f.loc(n), f.pqn, "macro-statement:%s" % n["k"],
                            "the self-check macro expands to something other than a const checkValidity() call",
                            witness=dict(instantiation=f.qn))
    # (pure) effect-freeness of the checkValidity closure
    for pkey, cf in sorted(check_fns.items()):
        eff = _effects(unit_on, cf, set())
        where = cf.where()
        if eff:
            chk.bad("R-CFGI.pure", eff[0][1], cf.pqn, "effect:%s" % eff[0][0],
                    "the validity check has an effect besides throwing: %s" % eff[0][0],
                    witness=dict(instantiation=cf.qn))
        else:
            chk.ok("R-CFGI.pure", where, "%s and everything it calls in the library only read, compare and throw" %
                   cf.pqn, key=pkey)
    # (same) per-function structure with the macro statements removed
    def fkey(f, u=None, depth=0):
        # lambdas of one (instantiated) function share a qualified name: qualify them by the enclosing function's
        # key and their source position
        k = f.qn + "|" + "|".join(p["type"] for p in f.decl["params"])
        # overloads that differ only in cv / ref qualification of the implicit object (operator*() const& / &&) share
        # name and parameter types: tell them apart by their pattern's position (the same file is parsed in both
        # configurations)
        k += "|#%s" % (f.pkey[1],)
        if f.decl.get("lambdaop"):
            k += "|@%s:%s" % (f.decl.get("line"), f.decl.get("col"))
            par = f.unit.func_of(f.decl["lambdaparent"]) if f.decl.get("lambdaparent") is not None else None
            if par is None and f.decl.get("lambdaparent") is not None:
                pd = f.unit.decls.get(f.decl["lambdaparent"])
                if pd is not None:
                    k += "|in " + pd["qn"] + "|" + "|".join(p["type"] for p in pd["params"])
            elif par is not None and depth < 4:
                k += "|in " + fkey(par, u, depth + 1)
        return k

    off = {}
    for f in unit_off.funcs:
        if not f.dependent and f.in_lib():
            off[fkey(f)] = f
    n_same = 0
    missing = 0
    for f in unit_on.funcs:
        if f.dependent or not f.in_lib():
            continue
        g = off.get(fkey(f))
        if g is None:
            if f.name == "checkValidity" or f.decl.get("implicit"):
                continue  # only instantiated when the checks are on
            missing += 1
            continue
        n_same += 1
        if shape_hash(unit_on, f) == shape_hash(unit_off, g):
            chk.ok("R-CFGI.same", f.where(), "%s: identical in both configurations" % f.pqn, key=f.pkey)
        else:
            chk.bad("R-CFGI.same", f.where(), f.pqn, "config-dependent-body",
                    "the function's statements differ between the two configurations beyond the self-check calls, so "
                    "computed values may depend on BSPLINE_ADD_TEST_CHECKS", witness=dict(instantiation=f.qn))
    chk.note("functions_compared", n_same)
    chk.note("macro_statements", n_macro)
    if missing > 5:
        raise AnalysisBroken("%d library functions instantiated only in the self-check configuration" % missing)
    return n_same, n_macro


def _effects(u, f, seen, depth=0):
    """[(description, location)] of state-changing constructs in f and its library callees."""
    if f.id in seen or depth > 10:
        return []
    seen.add(f.id)
    out = []
    for n in f.all_nodes():
        k = n["k"]
        if k in ("BinaryOperator", "CompoundAssignOperator") and n.get("op", "").endswith("=") and n.get("op") not in (
                "==", "!=", "<=", ">="):
            tgt = strip(kids(n)[0])
            if tgt["k"] == "MemberExpr" or (tgt["k"] == "DeclRefExpr" and not _is_local(u, tgt)):
                out.append(("assignment to %s" % tgt.get("n"), f.loc(n)))
        if k == "UnaryOperator" and n.get("op") in ("++", "--"):
            tgt = strip(kids(n)[0])
            if tgt["k"] == "MemberExpr":
                out.append(("increment of member %s" % tgt.get("n"), f.loc(n)))
        if k in ("CXXConstCastExpr",):
            out.append(("const_cast", f.loc(n)))
        ci = call_info(u, n) if k in CALL_KINDS else None
        if ci is not None and ci.decl is not None:
            d = ci.decl
            if ci.kind == "member" and not d.get("const") and not d.get("static") and ci.obj is not None:
                o = strip(ci.obj)
                if not (o["k"] == "DeclRefExpr" and _is_local(u, o)):
                    out.append(("non-const member call %s" % d["name"], f.loc(n)))
            callee = u.func_of(d["id"])
            if callee is not None and callee.in_lib():
                out += _effects(u, callee, seen, depth + 1)
    return out


def _is_local(u, declref):
    d = u.decls.get(declref.get("d"))
    return bool(d and d["k"] == "var" and d.get("local") and not d.get("staticlocal") and not d.get("ref"))
