"""Abstract evaluator for the comparison-only fragment (engine R-REG).

Interprets the *extracted statement trees of the current source* over region representatives:
unsigned/signed integers with exact wrap-around semantics, scalars represented by exact ranks
(plus the IEEE outcome 'unordered'), and small models of vector / shared_ptr / optional /
iterators.  Nothing from the repository is compiled or executed.

Fragment: comparisons, && || !, ?:, if/return/throw, loops over modelled containers, const
locals, +/- on tracked integers, std::min/max/lower_bound/distance/equal/adjacent_find/...,
construction of library value classes.  Anything else raises OutOfFragment (exit 2 at the
caller: "left the decidable fragment"), never a guess."""
from fractions import Fraction

from .facts import kids, strip

U64 = 1 << 64
from .config import DRIVERS as _DRIVERS  # noqa: E402


class OutOfFragment(Exception):
    pass


class Thrown(Exception):
    """A C++ exception propagating out of interpreted code."""

    def __init__(self, cls, code=None, where=None):
        super().__init__("%s(%s)" % (cls, code))
        self.cls, self.code, self.where = cls, code, where


class ModelUB(Exception):
    """The evaluated path runs into undefined behaviour in the model (out-of-range access, null deref...)."""


class _Return(Exception):
    def __init__(self, v):
        self.v = v


class _Break(Exception):
    pass


class _Continue(Exception):
    pass


# --- values ---------------------------------------------------------------------------------
NAN = "nan"


_AUTO = object()
_M0 = frozenset()
_M1 = frozenset([()])
NEUTRAL_TAGS = ("grid", "x")
MONO_CAP = 4000


def _mono_arith(op, a, b):
    ma, mb = a.mono, b.mono
    if ma is None or mb is None:
        return None
    if op in ("+", "-"):
        return ma | mb
    if op == "*":
        if ma == _M1:
            return mb
        if mb == _M1:
            return ma
        if len(ma) * len(mb) > MONO_CAP:
            return None
        return frozenset(tuple(sorted(x + y)) for x in ma for y in mb)
    if op == "/":
        return ma if mb <= _M1 and mb else None
    return None


class Sc:
    """Scalar of the spline's data type in the product domain (value x dependence x affine form):
       v    exact value / rank when it is known (constants, grid points, their exact combinations),
            NAN for the IEEE 'unordered' value, None when value-dependent (opaque);
       deps the set of input atoms the value was computed from (dependence analysis);
       lin  the value as an affine form  sum q_i * atom_i + q_0  over the opaque input atoms with exact rational
            coefficients ({atom: q, None: q_0}), or None once it is not affine (product of two non-constant values,
            division by a non-constant).  `pure` is False when a scaling constant was not a literal (it came from
            grid points / the abscissa): such forms hold for the representative grid only and are never asserted."""
    __slots__ = ("v", "deps", "lin", "pure", "mono")

    def __init__(self, v, deps=frozenset(), lin=_AUTO, pure=None, mono=_AUTO):
        self.v = v if (v is None or v == NAN) else Fraction(v)
        self.deps = deps if isinstance(deps, frozenset) else frozenset(deps)
        known = self.v is not None and self.v != NAN
        if lin is _AUTO:
            lin = {None: self.v} if known else None
        self.lin = lin
        self.pure = (not self.deps) if pure is None else pure
        if mono is _AUTO:
            # term structure: the set of products of opaque inputs the value is a sum of (coefficients ignored;
            # grid points and abscissae are neutral factors).  A known constant is the empty product (or no term
            # at all when it is exactly zero); None = unknown.
            mono = (_M0 if self.v == 0 else _M1) if known else None
        self.mono = mono

    @staticmethod
    def atom(a, v=None):
        """An opaque input named `a` (optionally with a known value for comparisons)."""
        return Sc(v, frozenset([a]), lin={a: Fraction(1)}, pure=True,
                  mono=_M1 if a[0] in NEUTRAL_TAGS else frozenset([(a,)]))

    def __repr__(self):
        return "Sc(%s%s)" % (self.v, (";" + ",".join(sorted(map(str, self.deps)))) if self.deps else "")

    def copy(self):
        return self

    def form(self):
        """Affine form without zero terms (None if not affine or not asserted)."""
        if self.lin is None or not self.pure:
            return None
        return {k: q for k, q in self.lin.items() if q != 0}


def _const_of(n):
    """Compile-time integer value of an expression node (through implicit casts / parentheses), else None."""
    while n is not None:
        if "cv" in n:
            try:
                return int(n["cv"])
            except (TypeError, ValueError):
                return None
        if n["k"] in ("ImplicitCastExpr", "ParenExpr", "ConstantExpr") and n.get("ch"):
            n = n["ch"][0]
        else:
            return None
    return None


N_DIV_DEP = [0]  # number of divisions whose divisor depends on inputs (grid points, coefficients, ...)
N_SC_CMP = [0]   # number of scalar comparisons evaluated (a suite can assert that a computation is branch-free in values)


SELFCHECK_MACROS = ("DURING_TEST_CHECK_VALIDITY", "DURING_TEST_CHECK_VALIDITY_OF")
_IN_SELFCHECK = [0]


def sc_cmp(op, a, b):
    if not _IN_SELFCHECK[0]:
        N_SC_CMP[0] += 1
    if a.v is None or b.v is None:
        raise OutOfFragment("comparison of value-dependent scalars (%r %s %r)" % (a, op, b))
    if a.v == NAN or b.v == NAN:
        return op == "!="
    return {"<": a.v < b.v, "<=": a.v <= b.v, ">": a.v > b.v, ">=": a.v >= b.v, "==": a.v == b.v,
            "!=": a.v != b.v}[op]


def _lin_const(l):
    """The constant an affine form denotes, or None if it has atom terms."""
    if l is None:
        return None
    c = Fraction(0)
    for k, q in l.items():
        if k is None:
            c = q
        elif q != 0:
            return None
    return c


def _lin_arith(op, a, b):
    la, lb = a.lin, b.lin
    if la is None or lb is None:
        return None, True
    pure = a.pure and b.pure
    if op in ("+", "-"):
        out = dict(la)
        sgn = 1 if op == "+" else -1
        for k, q in lb.items():
            out[k] = out.get(k, 0) + sgn * q
        return out, pure
    if op == "*":
        ca, cb = _lin_const(la), _lin_const(lb)
        if ca is not None:
            return {k: q * ca for k, q in lb.items()}, pure and not a.deps
        if cb is not None:
            return {k: q * cb for k, q in la.items()}, pure and not b.deps
        return None, True
    if op == "/":
        cb = _lin_const(lb)
        if cb is None or cb == 0:
            return None, True
        return {k: q / cb for k, q in la.items()}, pure and not b.deps
    return None, True


def sc_arith(op, a, b):
    deps = a.deps | b.deps
    if a.v == NAN or b.v == NAN:
        return Sc(NAN, deps, lin=None, mono=None)
    if op == "/" and a is b and a.v is None:
        return Sc(1)   # the very same (opaque, non-zero) value divided by itself
    if op == "/" and b.deps and not _IN_SELFCHECK[0]:
        N_DIV_DEP[0] += 1   # division by a quantity derived from inputs: the result is no polynomial of the inputs
    lin, pure = _lin_arith(op, a, b)
    mono = _mono_arith(op, a, b)
    if a.v is None or b.v is None:
        v = None
        if lin is not None:
            c = _lin_const(lin)
            if c is not None:
                v = c          # all atom terms cancelled (a - a): the value is a known constant
        return Sc(v, deps, lin=lin, pure=pure, mono=mono)
    if op == "+":
        return Sc(a.v + b.v, deps, lin=lin, pure=pure, mono=mono)
    if op == "-":
        return Sc(a.v - b.v, deps, lin=lin, pure=pure, mono=mono)
    if op == "*":
        return Sc(a.v * b.v, deps, lin=lin, pure=pure, mono=mono)
    if op == "/":
        if b.v == 0:
            return Sc(None, deps, lin=None, mono=None)  # inf / nan: value no longer tracked
        return Sc(a.v / b.v, deps, lin=lin, pure=pure, mono=mono)
    raise OutOfFragment("scalar operator %s" % op)


DEFAULT_ATOM = ("T()",)


def default_scalar():
    """T{} / T(): value-initialisation of the scalar type.  Zero for built-in arithmetic types, but for a
    user-defined scalar it is whatever its default constructor produces; the documented requirements on T do not
    say it is zero, so code must not depend on it: an opaque input of its own."""
    return Sc(None, frozenset([DEFAULT_ATOM]), lin={DEFAULT_ATOM: Fraction(1)}, pure=True,
              mono=frozenset([(DEFAULT_ATOM,)]))


class Vec:
    def __init__(self, items=None):
        self.items = list(items or [])

    def copy(self):
        return Vec([copy_value(x) for x in self.items])

    def __repr__(self):
        return "Vec(%r)" % (self.items,)


class Arr(Vec):
    def copy(self):
        return Arr([copy_value(x) for x in self.items])


class Opt:
    def __init__(self, v=None, has=False):
        self.v, self.has = v, has

    def copy(self):
        return Opt(copy_value(self.v), self.has)

    def __repr__(self):
        return "Opt(%r)" % (self.v,) if self.has else "nullopt"


class SharedPtr:
    def __init__(self, target=None):
        self.target = target  # shared, not copied

    def copy(self):
        return SharedPtr(self.target)


class Iter:
    """Random-access iterator / pointer into a Vec."""
    __slots__ = ("vec", "pos", "rev")

    def __init__(self, vec, pos, rev=False):
        self.vec, self.pos, self.rev = vec, pos, rev

    def copy(self):
        return Iter(self.vec, self.pos, self.rev)

    def __repr__(self):
        return "Iter(%d/%d)" % (self.pos, len(self.vec.items))


class SinglePass:
    """vt::InIt: single-pass input iterator. All copies share one stream; the end sentinel has no stream."""
    __slots__ = ("stream",)

    def __init__(self, stream):
        self.stream = stream   # dict(items=[...], pos=int) or None for the sentinel

    def copy(self):
        return SinglePass(self.stream)

    def at_end(self):
        return self.stream is None or self.stream["pos"] >= len(self.stream["items"])

    def take_all(self):
        if self.stream is None:
            return []
        out = self.stream["items"][self.stream["pos"]:]
        self.stream["pos"] = len(self.stream["items"])
        return out

    def __repr__(self):
        return "InIt(end)" if self.stream is None else "InIt(%d/%d)" % (self.stream["pos"], len(self.stream["items"]))


class RecSolverModel:
    """vt::RecSolver: records the linear system written through ISolver's interface."""

    def __init__(self, n):
        self.n = n
        self.M, self.b, self.x = {}, {}, {}
        self.solved = False
        self.log = []      # order of first writes: ("M", i, j) / ("b", i)

    def copy(self):
        return self


RECSOLVER = "vt::RecSolver<"
INIT = "vt::InIt<"
ARCH = "vt::Arch"
# pure integer -> scalar helpers (callers pass template constants and loop counters bounded by them, never window
# indices): exact integer arithmetic inside them is constant propagation, not index arithmetic
# Exact integer arithmetic (constant propagation) is admitted in the numeric helper layers: their integers are template
# constants and loop counters bounded by template constants (factorials, binomials, prefactor tables), never grid-sized
# quantities - the order-type argument for index code is not needed (and not claimed) there.
INT_HELPERS = ("bspline::internal::", "bspline::operators::", "bspline::interpolation::internal::")


class RawBytes:
    """A pointer into scalar storage reinterpreted as bytes (argument of memcmp & co.)."""
    __slots__ = ("it", "elsize")

    def __init__(self, it, elsize):
        self.it, self.elsize = it, elsize

    def copy(self):
        return self

    def __repr__(self):
        return "RawBytes(%r, %d)" % (self.it, self.elsize)


_SIZEOF = {"double": 8, "float": 4, "long double": 16}


class Obj:
    def __init__(self, cls, rec):
        self.cls, self.rec, self.fields = cls, rec, {}

    def copy(self):
        o = Obj(self.cls, self.rec)
        o.fields = {k: copy_value(v) for k, v in self.fields.items()}
        return o

    def __repr__(self):
        return "%s%r" % (self.cls.split("::")[-1], self.fields)


class Functor:
    def __init__(self, op):
        self.op = op

    def copy(self):
        return self


class Pointer:
    """Address of an lvalue (&x): dereferencing gives the lvalue back."""

    def __init__(self, lv):
        self.lv = lv

    def copy(self):
        return self


class Inserter:
    """std::back_inserter(v) / std::inserter: an output iterator appending to a vector."""

    def __init__(self, vec):
        self.vec = vec

    def copy(self):
        return self


class NotFn:
    def __init__(self, inner):
        self.inner = inner

    def copy(self):
        return self


class Closure:
    def __init__(self, callop, caps, this=None):
        self.callop, self.caps = callop, caps
        self.this = this   # the enclosing object of a lambda written in a member function ([this] / [&] / [=] capture)

    def copy(self):
        return self


class Sentinel:
    def __init__(self, name):
        self.name = name

    def copy(self):
        return self

    def __repr__(self):
        return self.name


NULLOPT = Sentinel("nullopt")
NULLPTR = Sentinel("nullptr")
UNINIT = Sentinel("<uninitialised>")
DEFAULTARG = Sentinel("<default argument>")


def copy_value(v):
    if isinstance(v, (int, bool, Sc, str)) or v is None:
        return v
    if isinstance(v, LV):
        return copy_value(v.load())
    return v.copy()


class LV:
    """An lvalue: (container, key).  container is a dict (frame / object fields) or a list (Vec items)."""
    __slots__ = ("c", "k")

    def __init__(self, c, k):
        self.c, self.k = c, k

    def load(self):
        try:
            v = self.c[self.k]
        except (IndexError, KeyError):
            raise ModelUB("access to element %r outside its container" % (self.k,))
        if v is UNINIT:
            raise ModelUB("read of uninitialised storage")
        return v

    def store(self, v):
        try:
            self.c[self.k] = v
        except (IndexError, KeyError):
            raise ModelUB("write to element %r outside its container" % (self.k,))


def box(v):
    return LV([v], 0)


def val(x):
    return x.load() if isinstance(x, LV) else x


# --- integer typing -----------------------------------------------------------------------------
UNSIGNED = {"unsigned long": 64, "unsigned int": 32, "unsigned long long": 64, "unsigned short": 16,
            "unsigned char": 8, "bool": 1}
SIGNED = {"long": 64, "int": 32, "long long": 64, "short": 16, "signed char": 8, "char": 8}


def int_type(t):
    t = t.replace("const ", "").replace("volatile ", "").strip()
    if t in UNSIGNED:
        return ("u", UNSIGNED[t])
    if t in SIGNED:
        return ("s", SIGNED[t])
    return None


def fit(v, it):
    if it is None:
        return v
    kind, bits = it
    if bits == 1:
        return 1 if v else 0
    if kind == "u":
        return v % (1 << bits)
    lo, hi = -(1 << (bits - 1)), (1 << (bits - 1)) - 1
    if v < lo or v > hi:
        raise ModelUB("signed integer overflow")
    return v


def convert(v, it):
    """Integral conversion (modular for unsigned, implementation-defined wrap for signed)."""
    if it is None:
        return v
    kind, bits = it
    if bits == 1:
        return 1 if v else 0
    v %= (1 << bits)
    if kind == "s" and v >= (1 << (bits - 1)):
        v -= (1 << bits)
    return v


def _is_const(n):
    while n is not None:
        if n.get("cv") is not None or n["k"] == "IntegerLiteral":
            return True
        if n["k"] in ("ImplicitCastExpr", "ParenExpr", "ConstantExpr", "SubstNonTypeTemplateParmExpr",
                      "CXXStaticCastExpr", "CXXFunctionalCastExpr") and len(n["ch"]) == 1:
            n = n["ch"][0]
            continue
        return False
    return False


class Interp:
    MAXSTEPS = 400000

    def __init__(self, unit, scalar="double"):
        self.u = unit
        self.scalar = scalar
        self.steps = 0
        self.frames = []
        self.by_canon = {}
        for f in unit.funcs:
            if not f.dependent:
                self.by_canon.setdefault(f.decl.get("canon", f.id), f)
        self.records = {}
        for d in unit.decls.values():
            if d["k"] == "rec" and d.get("complete") and not d.get("dependent"):
                self.records[d["id"]] = d
        self.methods = {}
        for d in unit.decls.values():
            if d["k"] == "fn" and d.get("record") is not None:
                self.methods.setdefault(d["record"], []).append(d)
        self.trace_arith = []
        self.executed = set()   # pattern locations of every function evaluated abstractly
        self.scaled = set()     # functions scaling a tracked integer by a constant (outside the order-type fragment)
        self.divzero = []       # divisions by a value known to be exactly zero (defined for IEEE types only)
        self.rawcmp = []        # scalar storage compared byte-wise instead of through T's operator==
        self.rec_solvers = []   # recording solver models created during the current evaluation
        self.thresholds = {}    # comparisons of run-time integers with constants > 8: site -> [outcomes, constant, function]
        self.bigconv = []       # integers beyond INT_MAX converted to the scalar type (T is constructible from int)

    # -- lookup -----------------------------------------------------------------------
    def func(self, decl_id):
        f = self.u.func_of(decl_id)
        if f is None:
            d = self.u.decls.get(decl_id)
            if d:
                f = self.by_canon.get(d.get("canon"))
        if f is not None and f.dependent:
            return None
        return f

    def find_record(self, qn):
        for d in self.records.values():
            if d["qn"] == qn:
                return d
        return None

    def find_method(self, rec_qn, name, nparams=None, pred=None):
        rec = self.find_record(rec_qn)
        if rec is None:
            return None
        for d in self.methods.get(rec["id"], ()):
            if d["name"] != name:
                continue
            if nparams is not None and len(d["params"]) != nparams:
                continue
            if pred is not None and not pred(d):
                continue
            f = self.func(d["id"])
            if f is not None:
                return f
        return None

    def find_methods(self, rec_qn, name, nparams=None, pred=None):
        """All instantiated overloads (with a body) of a member function."""
        rec = self.find_record(rec_qn)
        out = []
        for d in (self.methods.get(rec["id"], ()) if rec is not None else ()):
            if d["name"] != name or (nparams is not None and len(d["params"]) != nparams):
                continue
            if pred is not None and not pred(d):
                continue
            f = self.func(d["id"])
            if f is not None:
                out.append(f)
        return out

    def T(self, n):
        t = n.get("t")
        return self.u.types[t] if t is not None else ""

    def is_scalar_type(self, t):
        t = t.replace("const ", "").strip(" &")
        return t == self.scalar

    # -- calling ----------------------------------------------------------------------
    def call(self, f, this, args):
        """Interpret library function f.  `this` is an Obj (or None); args are values or LVs."""
        self.steps += 1
        if self.steps > self.MAXSTEPS:
            raise OutOfFragment("evaluation budget exceeded")
        if len(self.frames) > 60:
            raise OutOfFragment("recursion too deep in %s" % f.qn)
        frame = {"__this__": this, "__fn__": f}
        self.executed.add(f.pkey)
        params = f.decl["params"]
        if len(args) < len(params):
            raise OutOfFragment("default arguments not modelled in call to %s" % f.qn)
        for p, a in zip(params, args):
            t = p["type"]
            if t.endswith("&"):
                frame[p["id"]] = a if isinstance(a, LV) else box(a)
            else:
                frame[p["id"]] = box(copy_value(a))
        self.frames.append(frame)
        try:
            if f.decl.get("ctor"):
                self._run_inits(f, this)
            self.exec(f.body)
            return None
        except _Return as r:
            return r.v
        except (ModelUB, Thrown) as ex:
            if getattr(ex, "site", None) is None and f.in_repo():
                ex.site = (f.pkey, f.pqn, f.qn)  # innermost repository function on the stack
            if isinstance(ex, Thrown) and f.decl.get("noexcept") and f.in_repo() and not f.decl.get("dtor"):
                # an exception leaves a function declared noexcept: std::terminate, the caller never sees the exception
                ub = ModelUB("std::terminate: %s leaves %s, which is declared noexcept" % (
                    (ex.cls or "an exception").split("::")[-1], f.pqn))
                ub.site = (f.pkey, f.pqn, f.qn)
                raise ub
            raise
        finally:
            self.frames.pop()

    def _run_inits(self, f, this):
        for it in f.inits:
            init = it.get("init")
            if it.get("delegating"):
                o = val(self.ev(init))
                if not isinstance(o, Obj):
                    raise OutOfFragment("delegating constructor result")
                this.fields = o.fields
                continue
            if "name" in it:
                if init is None:
                    this.fields[it["name"]] = UNINIT
                else:
                    v = self.ev(init)
                    this.fields[it["name"]] = copy_value(v) if not self._is_construct(init) else val(v)
            elif "base" in it:
                if init is not None:
                    self.ev(init)

    @staticmethod
    def _is_construct(n):
        n = strip(n)
        return n["k"] in ("CXXConstructExpr", "CXXTemporaryObjectExpr", "InitListExpr", "CallExpr",
                          "CXXMemberCallExpr", "CXXOperatorCallExpr")

    def construct(self, ctor_decl, args, node=None):
        """Construct an object of a library class through the given constructor."""
        rec = self.u.decls.get(ctor_decl["record"])
        if rec is not None and rec.get("lambda") and args and isinstance(val(args[0]), Closure):
            return val(args[0])
        f = self.func(ctor_decl["id"])
        o = Obj(rec["qn"], rec)
        for fd in rec.get("fields", ()):
            o.fields[fd["name"]] = UNINIT
        if f is None or (ctor_decl.get("defaulted") and (ctor_decl.get("copyctor") or ctor_decl.get("movector"))):
            if ctor_decl.get("copyctor") or ctor_decl.get("movector"):
                src = val(args[0])
                return self.memberwise(src, move=bool(ctor_decl.get("movector")))
            if ctor_decl.get("defaultctor") and not rec.get("fields"):
                return o
            if f is None:
                raise OutOfFragment("constructor %s has no analysable body" % ctor_decl["qn"])
        self.call(f, o, args)
        return o

    def memberwise(self, src, move=False):
        """Defaulted copy / move construction of a library object."""
        if isinstance(src, (Closure, Functor, NotFn, Inserter)):
            return src   # callables / inserters passed by value
        if not isinstance(src, Obj):
            raise OutOfFragment("memberwise copy of non-object %r" % (src,))
        o = Obj(src.cls, src.rec)
        for k, v in src.fields.items():
            o.fields[k] = self.copy_or_move(v, src.fields, k, move)
        return o

    def copy_or_move(self, v, container, key, move):
        if not move:
            return copy_value(v)
        if isinstance(v, Obj):
            # use the class's move constructor (user-provided ones are interpreted)
            mc = None
            for d in self.methods.get(v.rec["id"], ()):
                if d.get("movector") and not d.get("deleted"):
                    mc = d
            if mc is None:
                cc = [d for d in self.methods.get(v.rec["id"], ()) if d.get("copyctor")]
                return self.construct(cc[0], [LV(container, key)]) if cc and self.func(cc[0]["id"]) else copy_value(v)
            return self.construct(mc, [LV(container, key)])
        if isinstance(v, Vec) and not isinstance(v, Arr):
            items = v.items
            v.items = []
            return Vec(items)
        if isinstance(v, SharedPtr):
            t = v.target
            v.target = None
            return SharedPtr(t)
        return copy_value(v)

    def assign_memberwise(self, dst, src, move=False):
        for k in list(dst.fields):
            v = src.fields[k]
            if isinstance(v, Obj) and isinstance(dst.fields[k], Obj):
                # find assignment operator of the member's class
                op = None
                for d in self.methods.get(v.rec["id"], ()):
                    if (d.get("moveassign") if move else d.get("copyassign")) and not d.get("deleted"):
                        op = d
                if move and op is None:
                    for d in self.methods.get(v.rec["id"], ()):
                        if d.get("copyassign") and not d.get("deleted"):
                            op = d
                f = self.func(op["id"]) if op else None
                if f is not None and not op.get("defaulted"):
                    self.call(f, dst.fields[k], [LV(src.fields, k)])
                else:
                    self.assign_memberwise(dst.fields[k], v, move and op is not None and bool(op.get("moveassign")))
            elif move and dst.fields[k] is v and isinstance(v, Vec) and not isinstance(v, Arr):
                # v = std::move(v): valid but unspecified by the standard; libstdc++ (the implementation this build
                # uses) swaps the content into a temporary, i.e. the vector ends up empty
                v.items = []
            else:
                dst.fields[k] = self.copy_or_move(v, src.fields, k, move)

    # -- statements ------------------------------------------------------------------
    def exec(self, s):
        if s is None:
            return
        if (s.get("m") in SELFCHECK_MACROS or s.get("mo") in SELFCHECK_MACROS) and not _IN_SELFCHECK[0]:
            # statements of the optional self-checks (BSPLINE_ADD_TEST_CHECKS): their comparisons validate, they do not
            # take part in the computation (R-CFGI decides that they are effect-free)
            _IN_SELFCHECK[0] += 1
            try:
                return self.exec(s)
            finally:
                _IN_SELFCHECK[0] -= 1
        self.steps += 1
        if self.steps > self.MAXSTEPS:
            raise OutOfFragment("evaluation budget exceeded")
        k = s["k"]
        ch = s["ch"]
        if k == "CompoundStmt":
            for c in ch:
                self.exec(c)
        elif k == "DeclStmt":
            for d in ch:
                if d["k"] == "VarDecl":
                    self.decl_var(d)
                elif d["k"] in ("StaticAssertDecl", "TypedefDecl", "TypeAliasDecl", "UsingDecl", "UsingDirectiveDecl",
                                "NamespaceAliasDecl", "CXXRecordDecl"):
                    pass
                else:
                    raise OutOfFragment("declaration %s" % d["k"])
        elif k == "IfStmt":
            init, condvar, cond, then, els = ch
            if init is not None:
                self.exec(init)
            if condvar is not None:
                # `if (const auto v = f())`: the declaration is executed, the condition is the converted variable
                self.exec(condvar)
            if s.get("constexpr") and cond.get("cv") is not None:
                c = int(cond["cv"]) != 0
            else:
                c = self.truth(self.ev(cond))
            if c:
                self.exec(then)
            else:
                self.exec(els)
        elif k == "ReturnStmt":
            if ch[0] is None:
                raise _Return(None)
            f = self.frames[-1]["__fn__"]
            v = self.ev(ch[0])
            if f.decl["rtype"].endswith("&"):
                raise _Return(v)
            raise _Return(copy_value(v) if not self._is_construct(ch[0]) else val(v))
        elif k == "ForStmt":
            init, condvar, cond, inc, body = ch
            self.exec(init) if init is not None and init["k"] in ("DeclStmt",) else (self.ev(init) if init else None)
            n = 0
            while cond is None or self.truth(self.ev(cond)):
                n += 1
                if n > 5000:
                    raise OutOfFragment("loop bound")
                try:
                    self.exec(body)
                except _Break:
                    break
                except _Continue:
                    pass
                if inc is not None:
                    self.ev(inc)
        elif k == "WhileStmt":
            condvar, cond, body = ch
            n = 0
            while (self.exec(condvar) if condvar is not None else None) or self.truth(self.ev(cond)):
                n += 1
                if n > 5000:
                    raise OutOfFragment("loop bound")
                try:
                    self.exec(body)
                except _Break:
                    break
                except _Continue:
                    pass
        elif k == "DoStmt":
            body, cond = ch
            n = 0
            while True:
                n += 1
                if n > 5000:
                    raise OutOfFragment("loop bound")
                try:
                    self.exec(body)
                except _Break:
                    break
                except _Continue:
                    pass
                if not self.truth(self.ev(cond)):
                    break
        elif k == "CXXForRangeStmt":
            init, rng, beg, end, cond, inc, loopvar, body = ch
            if init is not None:
                self.exec(init)
            self.exec(rng)
            self.exec(beg)
            self.exec(end)
            n = 0
            while self.truth(self.ev(cond)):
                n += 1
                if n > 5000:
                    raise OutOfFragment("loop bound")
                self.exec(loopvar)
                try:
                    self.exec(body)
                except _Break:
                    break
                except _Continue:
                    pass
                self.ev(inc)
        elif k == "BreakStmt":
            raise _Break()
        elif k == "ContinueStmt":
            raise _Continue()
        elif k == "NullStmt":
            pass
        elif k == "SwitchStmt":
            self.exec_switch(s)
        elif k in ("GotoStmt", "CXXTryStmt", "LabelStmt"):
            raise OutOfFragment("statement %s" % k)
        else:
            self.ev(s)

    def exec_switch(self, s):
        ch = [c for c in s["ch"] if c is not None]
        if len(ch) < 2:
            raise OutOfFragment("switch shape")
        cond, body = ch[-2], ch[-1]
        v = self.rv(cond)
        if not isinstance(v, int):
            raise OutOfFragment("switch on %r" % (v,))
        if body["k"] != "CompoundStmt":
            raise OutOfFragment("switch body")
        # flatten: [(labels or None, statement)]
        seq = []
        for c in kids(body):
            labels = None
            x = c
            while x is not None and x["k"] in ("CaseStmt", "DefaultStmt"):
                labels = labels or []
                sub = kids(x)
                if x["k"] == "DefaultStmt":
                    labels.append("default")
                    x = sub[0] if sub else None
                else:
                    lv = sub[0]
                    val_ = lv.get("cv")
                    if val_ is None:
                        val_ = self.rv(lv)
                    labels.append(int(val_))
                    x = sub[-1] if len(sub) > 1 else None
            seq.append((labels, x))
        start = None
        for i, (labels, _) in enumerate(seq):
            if labels and v in [l for l in labels if l != "default"]:
                start = i
                break
        if start is None:
            for i, (labels, _) in enumerate(seq):
                if labels and "default" in labels:
                    start = i
                    break
        if start is None:
            return
        try:
            for labels, st in seq[start:]:
                if st is not None:
                    self.exec(st)
        except _Break:
            pass

    def decl_var(self, d):
        frame = self.frames[-1]
        t = self.u.types[d["t"]]
        ch = kids(d)
        if d.get("static"):
            key = ("static", d["id"])
            if key not in self.__dict__.setdefault("_statics", {}):
                self._statics[key] = box(copy_value(self.ev(ch[0])) if ch else UNINIT)
            frame[d["id"]] = self._statics[key]
            return
        if not ch:
            frame[d["id"]] = box(self.default_value(t))
            return
        init = ch[0]
        v = self.ev(init)
        if t.endswith("&"):
            frame[d["id"]] = v if isinstance(v, LV) else box(v)
        else:
            frame[d["id"]] = box(val(v) if self._is_construct(init) else copy_value(v))
        # structured bindings: each name denotes an expression over the (hidden) decomposed variable
        for b in d.get("bind", ()):
            if b.get("hold") is not None:
                self.decl_var(b["hold"])
            if b.get("e") is None:
                raise OutOfFragment("structured binding without expression")
            r = self.ev(b["e"])
            frame[b["id"]] = r if isinstance(r, LV) else box(r)

    def default_value(self, t):
        t0 = t.replace("const ", "").strip()
        if t0.startswith("std::optional<"):
            return Opt()
        if t0.startswith("std::vector<"):
            return Vec()
        if t0.startswith("std::array<"):
            n = int(t0.rstrip(">").rsplit(",", 1)[1].strip().rstrip("UL"))
            et = t0[len("std::array<"):].rsplit(",", 1)[0].strip()
            rec = self.find_record(et) if not et.startswith("std::") else None
            if rec is not None:
                dc = [d for d in self.methods.get(rec["id"], ()) if d.get("defaultctor") and not d.get("deleted")]
                if dc:
                    return Arr([self.construct(dc[0], []) for _ in range(n)])
            if et.startswith(("std::array<", "std::vector<", "std::optional<", "std::shared_ptr<")):
                # nested containers: each element is default-initialised in turn (an array of arrays of indeterminate
                # scalars, not an indeterminate array)
                return Arr([self.default_value(et) for _ in range(n)])
            return Arr([UNINIT] * n)
        if t0.startswith("std::shared_ptr<"):
            return SharedPtr(None)
        return UNINIT

    def _elem_type(self, vec_qn):
        inner = vec_qn[len("std::vector<"):]
        depth, out = 0, ""
        for ch in inner:
            if ch == "<":
                depth += 1
            elif ch == ">":
                if depth == 0:
                    break
                depth -= 1
            elif ch == "," and depth == 0:
                break
            out += ch
        return out.strip()

    def _needs_construct(self, vec_qn, arg):
        et = self._elem_type(vec_qn)
        rec = self.find_record(et) if not et.startswith("std::") else None
        return rec is not None and not (isinstance(arg, Obj) and arg.cls == rec["qn"])

    def _construct_element(self, vec_qn, args, e):
        et = self._elem_type(vec_qn)
        rec = self.find_record(et) if not et.startswith("std::") else None
        if rec is None:
            raise OutOfFragment("emplace_back of %s from %d arguments" % (et, len(args)))
        from .ast import class_of_type
        best = None
        for d in self.methods.get(rec["id"], ()):
            if not d.get("ctor") or d.get("deleted") or len(d["params"]) != len(args):
                continue
            ok = True
            for prm, a in zip(d["params"], args):
                v = val(a)
                cls = class_of_type(prm["type"])
                if isinstance(v, Obj) and cls is not None and not v.cls.split("<")[0].endswith(cls):
                    ok = False
                if not isinstance(v, Obj) and cls is not None:
                    ok = False
            if ok and self.func(d["id"]) is not None:
                best = d
                break
        if best is None:
            raise OutOfFragment("no constructor of %s for emplace_back with %d arguments" % (et, len(args)))
        return self.construct(best, list(args), e)

    def default_elem(self, vec_qn):
        """Value-initialised element of std::vector<E>."""
        et = vec_qn[len("std::vector<"):]
        if et.startswith("std::array<"):
            k = int(et.split(">")[0].rsplit(",", 1)[1].strip().rstrip("UL"))
            return Arr([default_scalar() for _ in range(k)])
        if self.is_scalar_type(et.split(",")[0].rstrip(">")):
            return default_scalar()
        if int_type(et.split(",")[0].rstrip(">")):
            return 0
        raise OutOfFragment("value-initialised element of %s" % vec_qn)

    def truth(self, v):
        v = val(v)
        if isinstance(v, bool):
            return v
        if isinstance(v, int):
            return v != 0
        if isinstance(v, Opt):
            return v.has
        if isinstance(v, SharedPtr):
            return v.target is not None
        raise OutOfFragment("truth value of %r" % (v,))

    # -- expressions ------------------------------------------------------------------
    def ev(self, e):
        self.steps += 1
        if self.steps > self.MAXSTEPS:
            raise OutOfFragment("evaluation budget exceeded")
        cv = e.get("cv")
        if cv is not None:
            return int(cv)  # folded by the compiler front end (no side effects)
        k = e["k"]
        m = getattr(self, "ev_" + k, None)
        if m is None:
            raise OutOfFragment("expression kind %s at line %s" % (k, e.get("l")))
        return m(e)

    def rv(self, e):
        return val(self.ev(e))

    def _only(self, e):
        return self.ev(e["ch"][0])

    ev_ParenExpr = ev_ExprWithCleanups = ev_CXXBindTemporaryExpr = ev_ConstantExpr = _only
    ev_SubstNonTypeTemplateParmExpr = ev_FullExpr = _only

    def ev_MaterializeTemporaryExpr(self, e):
        v = self.ev(e["ch"][0])
        return v if isinstance(v, LV) else box(v)

    def ev_IntegerLiteral(self, e):
        return int(e["v"])

    def ev_CXXBoolLiteralExpr(self, e):
        return 1 if e["v"] else 0

    def ev_FloatingLiteral(self, e):
        try:
            return Sc(Fraction(e["v"]))
        except (ValueError, ZeroDivisionError):
            raise OutOfFragment("floating literal %s" % e.get("v"))

    def ev_CXXNullPtrLiteralExpr(self, e):
        return NULLPTR

    def ev_CXXThisExpr(self, e):
        t = self.frames[-1]["__this__"]
        if isinstance(t, Closure) and t.this is not None:
            return t.this   # `this` inside a lambda body is the captured enclosing object
        return t

    def ev_StringLiteral(self, e):
        return "str"

    def ev_CXXDefaultArgExpr(self, e):
        return DEFAULTARG

    def ev_CXXDefaultInitExpr(self, e):
        return self.ev(e["ch"][0])

    def ev_CXXStdInitializerListExpr(self, e):
        v = self.rv(e["ch"][0])
        return v

    def ev_InitListExpr(self, e):
        t = self.T(e).replace("const ", "")
        rec = self.find_record(t) if not t.startswith("std::") else None
        if rec is not None:
            # aggregate initialisation of a library class (operators are empty aggregates with a base class)
            o = Obj(rec["qn"], rec)
            ch = kids(e)
            nb = len(rec.get("bases", ()))
            flds = rec.get("fields", ())
            for fd in flds:
                o.fields[fd["name"]] = UNINIT
            for fd, c in zip(flds, ch[nb:]):
                v = self.ev(c)
                o.fields[fd["name"]] = val(v) if self._is_construct(c) else copy_value(v)
            return o
        items = [copy_value(self.ev(c)) for c in kids(e)]
        if t.endswith("]") or t.startswith("std::array<"):
            if t.startswith("std::array<") and not t.endswith("]") and len(items) == 1 and isinstance(items[0], Arr):
                items = items[0].items
            # elements without an initialiser are value-initialised (the list's array filler)
            import re as _re
            if t.endswith("]"):
                m = _re.match(r"(.+)\[(\d+)\]$", t)
                et, n = (m.group(1).strip(), int(m.group(2))) if m else (None, len(items))
            else:
                n = int(t.rstrip(">").rsplit(",", 1)[1].strip().rstrip("UL"))
                et = t[len("std::array<"):].rsplit(",", 1)[0].strip()
            while et is not None and len(items) < n:
                if self.is_scalar_type(et):
                    items.append(default_scalar())
                elif int_type(et):
                    items.append(0)
                else:
                    items.append(self.default_value(et))
            return Arr(items)
        if len(items) == 1:
            return items[0]
        if not items:
            if self.is_scalar_type(t):
                return default_scalar()
            if int_type(t):
                return 0
            return self.default_value(t)
        raise OutOfFragment("initializer list of type %s" % t)

    def ev_ImplicitValueInitExpr(self, e):
        t = self.T(e).replace("const ", "").strip()
        if int_type(t):
            return 0
        if self.is_scalar_type(t):
            return default_scalar()
        import re as _re
        m = _re.match(r"(.+)\[(\d+)\]$", t)
        if m:
            et, n = m.group(1).strip(), int(m.group(2))
            if self.is_scalar_type(et):
                return Arr([default_scalar() for _ in range(n)])
            if int_type(et):
                return Arr([0] * n)
        if t.startswith("std::array<"):
            n = int(t.rstrip(">").rsplit(",", 1)[1].strip().rstrip("UL"))
            et = t[len("std::array<"):].rsplit(",", 1)[0].strip()
            if self.is_scalar_type(et):
                return Arr([default_scalar() for _ in range(n)])
        raise OutOfFragment("value-init of %s" % t)

    def ev_CXXScalarValueInitExpr(self, e):
        return self.ev_ImplicitValueInitExpr(e)

    def ev_DeclRefExpr(self, e):
        d = self.u.decls.get(e["d"])
        for fr in (self.frames[-1],):
            if e["d"] in fr:
                return fr[e["d"]]
        # lambda captures by reference / enclosing frames (closures are called within their creator's lifetime)
        for fr in reversed(self.frames[:-1]):
            if e["d"] in fr:
                return fr[e["d"]]
        if e.get("cv") is not None:
            return int(e["cv"])
        if d is not None:
            if d["qn"] == "std::nullopt":
                return NULLOPT
            if d.get("kind") == "EnumConstant":
                return int(d.get("value"))
            if d["k"] == "fn":
                return ("fnref", d["id"])
            if d["k"] == "var" and d.get("ival") is not None:
                return int(d["ival"])   # a const integral variable with a constant initialiser (static constexpr member)
        raise OutOfFragment("reference to %s" % (d["qn"] if d else e.get("n")))

    def ev_MemberExpr(self, e):
        d = self.u.decls.get(e["d"])
        base = self.ev(e["ch"][0])
        if d is None:
            raise OutOfFragment("member")
        if d["k"] == "field":
            o = val(base)
            if isinstance(o, (Iter, Pointer)):  # it->field / p->field
                o = val(self.deref(o))
            if isinstance(o, SharedPtr):
                if o.target is None:
                    raise ModelUB("null shared_ptr dereference")
                o = o.target
            if not isinstance(o, Obj):
                raise OutOfFragment("field access on %r" % (o,))
            return LV(o.fields, d["name"])
        if d["k"] == "fn":
            return ("bound", d, base)
        if d["k"] == "var" and e.get("cv") is not None:
            return int(e["cv"])
        raise OutOfFragment("member %s" % d["qn"])

    def ev_ImplicitCastExpr(self, e):
        ck = e.get("ck")
        c = e["ch"][0]
        if ck in ("LValueToRValue",):
            return val(self.ev(c))
        if ck in ("NoOp", "DerivedToBase", "UncheckedDerivedToBase", "FunctionToPointerDecay", "ArrayToPointerDecay",
                  "ConstructorConversion", "UserDefinedConversion", "BuiltinFnToFnPtr"):
            return self.ev(c)
        if ck in ("IntegralCast", "IntegralToBoolean", "BooleanToSignedIntegral"):
            v = self.rv(c)
            if not isinstance(v, int):
                raise OutOfFragment("integral cast of %r" % (v,))
            return convert(v, int_type(self.T(e)))
        if ck == "IntegralToFloating":
            v = self.rv(c)
            if self.is_scalar_type(self.T(e)):
                self._int_to_scalar(v, e)
                return Sc(v)
            raise OutOfFragment("int->float conversion to %s" % self.T(e))
        if ck == "NullToPointer":
            return NULLPTR
        if ck == "BitCast":
            v = self.rv(c)
            if isinstance(v, (Pointer, Obj)) or v is NULLPTR:
                return v   # pointer (`this` is represented by the object itself) converted to const void* for an
                #            address comparison
            if isinstance(v, Iter) and not v.rev:
                el = self.T(c).replace("const ", "").replace("*", "").strip()
                if el in _SIZEOF:
                    return RawBytes(v, _SIZEOF[el])   # T* -> const void*: storage handed to a byte-wise routine
            raise OutOfFragment("bit cast of %r" % (v,))
        if ck == "PointerToBoolean":
            v = self.rv(c)
            return 0 if (v is NULLPTR or (isinstance(v, SharedPtr) and v.target is None)) else 1
        raise OutOfFragment("cast kind %s" % ck)

    def _explicit_cast(self, e):
        ck = e.get("ck")
        if ck in ("NoOp", "ConstructorConversion", "UserDefinedConversion", "ToVoid", "LValueToRValue"):
            v = self.ev(e["ch"][0])
            return val(v) if ck == "LValueToRValue" else v
        return self.ev_ImplicitCastExpr(e)

    ev_CXXStaticCastExpr = ev_CXXFunctionalCastExpr = ev_CStyleCastExpr = _explicit_cast
    ev_CXXConstCastExpr = _explicit_cast   # value-preserving; the cast itself is R-OWN.cast's business

    def ev_ArraySubscriptExpr(self, e):
        a, i = self.rv(e["ch"][0]), self.rv(e["ch"][1])
        if isinstance(a, Iter):
            return self.deref(Iter(a.vec, a.pos + i))
        if isinstance(a, Vec):
            if i < 0 or i >= len(a.items):
                raise ModelUB("array subscript %d out of range (size %d)" % (i, len(a.items)))
            return LV(a.items, i)
        raise OutOfFragment("subscript of %r" % (a,))

    def ev_ConditionalOperator(self, e):
        c, a, b = e["ch"]
        return self.ev(a) if self.truth(self.ev(c)) else self.ev(b)

    def ev_UnaryOperator(self, e):
        op = e["op"]
        c = e["ch"][0]
        if op == "!":
            return 0 if self.truth(self.ev(c)) else 1
        if op == "*":
            return self.deref(self.rv(c))
        if op == "&":
            v = self.ev(c)
            if isinstance(v, LV):
                return Pointer(v)
            if isinstance(v, Obj):
                return Pointer(box(v))
            raise OutOfFragment("address-of %r" % (v,))
        if op in ("++", "--"):
            lv = self.ev(c)
            if not isinstance(lv, LV):
                raise OutOfFragment("increment of rvalue")
            old = lv.load()
            delta = 1 if op == "++" else -1
            if isinstance(old, Iter):
                new = Iter(old.vec, old.pos + delta, old.rev)
            elif isinstance(old, int):
                new = fit(old + delta, int_type(self.T(c)))
            else:
                raise OutOfFragment("increment of %r" % (old,))
            lv.store(new)
            return old if e.get("postfix") else lv
        if op == "-":
            v = self.rv(c)
            if isinstance(v, int):
                return fit(-v, int_type(self.T(e)))
            if isinstance(v, Sc):
                return sc_arith("*", Sc(-1), v)
            raise OutOfFragment("negation of %r" % (v,))
        if op == "+":
            return self.rv(c)
        raise OutOfFragment("unary %s" % op)

    def deref(self, v):
        if isinstance(v, Pointer):
            return v.lv
        if v is NULLPTR:
            raise ModelUB("null pointer dereference")
        if isinstance(v, Iter):
            n = len(v.vec.items)
            idx = (n - 1 - v.pos) if v.rev else v.pos
            if idx < 0 or idx >= n:
                raise ModelUB("dereference of iterator at position %d of %d" % (v.pos, n))
            return LV(v.vec.items, idx)
        if isinstance(v, SharedPtr):
            if v.target is None:
                raise ModelUB("null shared_ptr dereference")
            return box(v.target)
        if isinstance(v, Opt):
            if not v.has:
                raise ModelUB("dereference of empty optional")
            return LV(v.__dict__, "v")
        if isinstance(v, Obj):
            return box(v)  # *this
        raise OutOfFragment("dereference of %r" % (v,))

    def ev_BinaryOperator(self, e):
        op = e["op"]
        a, b = e["ch"]
        if op == "&&":
            return 1 if (self.truth(self.ev(a)) and self.truth(self.ev(b))) else 0
        if op == "||":
            return 1 if (self.truth(self.ev(a)) or self.truth(self.ev(b))) else 0
        if op == ",":
            self.ev(a)
            return self.ev(b)
        if op == "=":
            lv = self.ev(a)
            v = copy_value(self.ev(b))
            if not isinstance(lv, LV):
                raise OutOfFragment("assignment to rvalue")
            lv.store(v)
            return lv
        x, y = self.rv(a), self.rv(b)
        return self.binop(op, x, y, e, a, b)

    def binop(self, op, x, y, e, a=None, b=None):
        if op in ("<", "<=", ">", ">=", "==", "!="):
            if isinstance(x, Sc) and isinstance(y, Sc):
                return 1 if sc_cmp(op, x, y) else 0
            if isinstance(x, int) and isinstance(y, int):
                r_ = 1 if {"<": x < y, "<=": x <= y, ">": x > y, ">=": x >= y, "==": x == y, "!=": x != y}[op] else 0
                if a is not None and b is not None and self.frames:
                    # a run-time integer compared with a compile-time constant beyond the evaluated sizes: remember which
                    # outcomes were seen (the small-model argument needs both, see r_reg.run_jobs)
                    ca, cb = _const_of(a), _const_of(b)
                    if (ca is None) != (cb is None):
                        k_ = ca if ca is not None else cb
                        if 8 < abs(k_) < (1 << 31):
                            fn = self.frames[-1]["__fn__"]
                            # pure integer -> scalar helpers (free functions of the helper layers whose parameters are all
                            # integers or scalars: factorials, binomials, prefactor tables) compare template constants and
                            # loop counters bounded by them, not grid-sized quantities: a table limit such as `n <= 12`
                            # there is not a size threshold (the constant-table suites cover those arguments)
                            pure = (fn.decl.get("record") is None and fn.qn.startswith(INT_HELPERS) and
                                    all(p_["type"].replace("const ", "").strip(" &") in
                                        ("unsigned long", "size_t", "int", "unsigned int", "long", self.scalar)
                                        for p_ in fn.decl.get("params", ())))
                            if fn.in_lib() and not pure:
                                site = (fn.pkey, e.get("l"), e.get("c"))
                                self.thresholds.setdefault(site, [set(), k_, fn.pqn])[0].add(r_)
                return r_
            if isinstance(x, Iter) and isinstance(y, Iter):
                if x.vec is not y.vec:
                    raise ModelUB("comparison of iterators into different containers")
                px, py = x.pos, y.pos
                return 1 if {"<": px < py, "<=": px <= py, ">": px > py, ">=": px >= py, "==": px == py,
                             "!=": px != py}[op] else 0
            if isinstance(x, tuple) and isinstance(y, tuple) and x[0] == "enum":
                return 1 if ((x[2] == y[2]) == (op == "==")) else 0
            if (x is NULLPTR or y is NULLPTR) and op in ("==", "!="):
                other = y if x is NULLPTR else x
                isnull = other is NULLPTR or (isinstance(other, SharedPtr) and other.target is None)
                return 1 if (isnull == (op == "==")) else 0
            if isinstance(x, Pointer) and isinstance(y, Pointer) and op in ("==", "!="):
                same = x.lv.c is y.lv.c and x.lv.k == y.lv.k
                return 1 if (same == (op == "==")) else 0
            if op in ("==", "!=") and ((isinstance(x, Pointer) and isinstance(y, Obj)) or
                                       (isinstance(x, Obj) and isinstance(y, Pointer))):
                # `this == &other` (CXXThisExpr evaluates to the object itself)
                ptr, ob = (x, y) if isinstance(x, Pointer) else (y, x)
                same = val(ptr.lv) is ob
                return 1 if (same == (op == "==")) else 0
            if op in ("==", "!=") and isinstance(x, (Vec, Obj, Arr)) and isinstance(y, (Vec, Obj, Arr)):
                # a BUILT-IN comparison of two class-type values can only be a comparison of raw pointers to them
                # (shared_ptr::get(), &obj): object identity
                return 1 if ((x is y) == (op == "==")) else 0
            raise OutOfFragment("comparison %s of %r and %r" % (op, x, y))
        if op in ("+", "-", "*", "/") and isinstance(x, Sc) and isinstance(y, Sc):
            if op == "/" and y.v == 0:
                fn = self.frames[-1]["__fn__"] if self.frames else None
                self.divzero.append((fn.pkey, fn.pqn, fn.qn, e.get("l")) if fn is not None else None)
            return sc_arith(op, x, y)
        if op in ("+", "-"):
            if isinstance(x, int) and isinstance(y, int):
                return fit(x + y if op == "+" else x - y, int_type(self.T(e)))
            if isinstance(x, Iter) and isinstance(y, int):
                return Iter(x.vec, x.pos + (y if op == "+" else -y), x.rev)
            if isinstance(x, int) and isinstance(y, Iter) and op == "+":
                return Iter(y.vec, y.pos + x, y.rev)
            if isinstance(x, Iter) and isinstance(y, Iter) and op == "-":
                if x.vec is not y.vec:
                    raise ModelUB("difference of iterators into different containers")
                return x.pos - y.pos
            raise OutOfFragment("scalar arithmetic (%s) - outside the comparison-only fragment" % op)
        if op in ("*", "/", "%", "<<", ">>", "&", "|", "^"):
            if isinstance(x, int) and isinstance(y, int) and e.get("cv") is not None:
                return int(e["cv"])
            if isinstance(x, int) and isinstance(y, int) and op in ("*", "/", "%") and \
                    (_is_const(a) or _is_const(b) or self._int_arith_here()):
                # scaling by a compile-time constant: allowed only where flagged by the caller
                # (allow_int_arith: constant propagation through pure functions of small integer constants)
                if not (getattr(self, "allow_const_scaling", False) or self._int_arith_here()):
                    # e.g. the midpoint of a hand-written bisection.  Evaluated exactly; the function is recorded:
                    # for it the enumeration is exhaustive up to the size bound, not by the order-type argument.
                    fn = self.frames[-1]["__fn__"] if self.frames else None
                    if fn is not None:
                        self.scaled.add(fn.pqn)
                if op == "*":
                    return fit(x * y, int_type(self.T(e)))
                if y == 0:
                    raise ModelUB("division by zero")
                q = abs(x) // abs(y) * (1 if (x >= 0) == (y >= 0) else -1)
                return fit(q if op == "/" else x - q * y, int_type(self.T(e)))
            raise OutOfFragment("arithmetic %s on tracked values - outside the comparison-only fragment" % op)
        raise OutOfFragment("binary operator %s on %r, %r (line %s)" % (op, x, y, e.get("l")))

    def _int_arith_here(self):
        """Exact integer arithmetic (constant propagation) is admitted everywhere (allow_int_arith) or inside
        the pure helper functions named in int_arith_scopes, whose callers pass template constants."""
        if getattr(self, "allow_int_arith", False):
            return True
        sc = getattr(self, "int_arith_scopes", ()) + INT_HELPERS
        if sc and self.frames:
            return self.frames[-1]["__fn__"].qn.startswith(sc)
        return False

    def ev_CompoundAssignOperator(self, e):
        op = e["op"][:-1]
        a, b = e["ch"]
        lv = self.ev(a)
        y = self.rv(b)
        x = lv.load()
        r = self.binop(op, x, y, e, a, b)
        if isinstance(r, int):
            r = fit(r, int_type(self.T(a)))
        lv.store(r)
        return lv

    # -- lambdas -------------------------------------------------------------------------
    def ev_LambdaExpr(self, e):
        t = self.frames[-1].get("__this__") if self.frames else None
        if isinstance(t, Closure):
            t = t.this   # a lambda nested in a lambda
        return Closure(e["callop"], None, this=t)

    # -- new ------------------------------------------------------------------------------
    def ev_CXXNewExpr(self, e):
        """`new X(args)` (single object, handed to a smart pointer): a fresh cell holding the constructed value."""
        init = [c for c in kids(e) if c is not None]
        if not init:
            raise OutOfFragment("new without an initialiser")
        v = self.ev(init[-1])
        cell = {"obj": val(v) if self._is_construct(init[-1]) else copy_value(v)}
        return Pointer(LV(cell, "obj"))

    # -- throw ---------------------------------------------------------------------------
    def ev_CXXThrowExpr(self, e):
        code = None
        cls = None
        from .facts import walk
        for n in walk(e):
            if n["k"] in ("CXXConstructExpr", "CXXTemporaryObjectExpr") and cls is None:
                d = self.u.decls.get(n.get("d"))
                if d:
                    cls = d.get("recqn")
            if n["k"] == "DeclRefExpr":
                d = self.u.decls.get(n["d"])
                if d and d.get("kind") == "EnumConstant":
                    code = d["name"]
        raise Thrown(cls or "?", code, e.get("l"))

    # -- construction --------------------------------------------------------------------
    def ev_CXXConstructExpr(self, e):
        d = self.u.decls.get(e.get("d"))
        if d is None:
            raise OutOfFragment("unresolved constructor")
        rq = d.get("recqn", "")
        args = [self.ev(c) for c in kids(e)]
        if rq.startswith(RECSOLVER):
            vals = [val(a) for a in args if a is not DEFAULTARG]
            if len(vals) != 1 or not isinstance(vals[0], int):
                raise OutOfFragment("vt::RecSolver constructed from %r" % (vals,))
            if vals[0] > 4096:
                raise Thrown("std::length_error", None, e.get("l"))
            m = RecSolverModel(vals[0])
            self.rec_solvers.append(m)
            return m
        if rq.startswith(INIT):
            vals = [val(a) for a in args if a is not DEFAULTARG]
            if not vals:
                return SinglePass(None)
            if isinstance(vals[0], SinglePass):
                return vals[0].copy()
            if isinstance(vals[0], Vec):
                return SinglePass(dict(items=vals[0].items, pos=0))
            raise OutOfFragment("vt::InIt constructed from %r" % (vals[0],))
        if rq == ARCH:
            # the scalar archetype is a scalar: value-initialised, copied, or built from an integer
            vals = [val(a) for a in args if a is not DEFAULTARG]
            if not vals:
                return default_scalar()
            if isinstance(vals[0], Sc):
                return vals[0]
            if isinstance(vals[0], int):
                self._int_to_scalar(vals[0], e)
                return Sc(vals[0])
            raise OutOfFragment("vt::Arch constructed from %r" % (vals[0],))
        if d.get("inroot") or rq.startswith("bspline::") or rq.startswith("vt"):
            if rq.startswith("bspline::exceptions::"):
                return Obj(rq, self.u.decls.get(d["record"]))
            return self.construct(d, args, e)
        return self.std_construct(rq, d, args, e)

    ev_CXXTemporaryObjectExpr = ev_CXXConstructExpr

    def std_construct(self, rq, d, args, e):
        args = [a for a in args if a is not DEFAULTARG]
        vals = [val(a) for a in args]
        if rq.startswith("std::optional<"):
            if not vals:
                return Opt()
            v = vals[0]
            if v is NULLOPT:
                return Opt()
            if isinstance(v, Opt):
                return v.copy()
            return Opt(copy_value(v), True)
        if rq.startswith("std::nullopt_t"):
            return NULLOPT
        if rq.startswith("std::vector<"):
            if not vals:
                return Vec()
            v = vals[0]
            if isinstance(v, Vec) and len(vals) == 1:
                if d.get("movector") and isinstance(args[0], LV):
                    items = v.items
                    v.items = []
                    return Vec(items)
                return Vec([copy_value(x) for x in v.items])
            if isinstance(v, Iter) and len(vals) >= 2 and isinstance(vals[1], Iter):
                return Vec([copy_value(x) for x in v.vec.items[v.pos:vals[1].pos]])
            if isinstance(v, SinglePass) and len(vals) >= 2 and isinstance(vals[1], SinglePass):
                return Vec([copy_value(x) for x in v.take_all()])
            if isinstance(v, int) and (v < 0 or v > 100000):
                # std::vector(n) with an absurd size: length_error / bad_alloc in the real program
                raise Thrown("std::length_error", None, e.get("l"))
            if isinstance(v, int):
                fill = vals[1] if len(vals) >= 2 and not isinstance(vals[1], Sentinel) and not (
                    isinstance(vals[1], Obj)) else None
                et = rq[len("std::vector<"):]
                if fill is None:
                    if et.startswith("std::array<"):
                        n = int(et.split(">")[0].rsplit(",", 1)[1].strip().rstrip("UL"))
                        return Vec([Arr([default_scalar() for _ in range(n)]) for _ in range(v)])
                    return Vec([default_scalar() if self.is_scalar_type(et.split(",")[0].rstrip(">")) else 0
                                for _ in range(v)])
                return Vec([copy_value(fill) for _ in range(v)])
            raise OutOfFragment("vector constructor from %r" % (vals,))
        if rq.startswith(("std::set<", "std::multiset<")):
            # ordered container of scalars / integers: a sorted vector; insertion uses only operator< (equivalent keys are
            # dropped by std::set - an unordered value is "equivalent" to whatever it is compared with first)
            multi = rq.startswith("std::multiset<")
            src = []
            if vals:
                v = vals[0]
                if isinstance(v, Vec) and len(vals) == 1:
                    src = list(v.items)
                elif isinstance(v, Iter) and len(vals) >= 2 and isinstance(vals[1], Iter):
                    src = list(v.vec.items[v.pos:vals[1].pos])
                elif isinstance(v, SinglePass) and len(vals) >= 2:
                    src = v.take_all()
                else:
                    raise OutOfFragment("std::set constructor from %r" % (vals,))
            out = []
            for x in src:
                pos, dup = len(out), False
                for i, y in enumerate(out):
                    if self._less(None, x, y):
                        pos = i
                        break
                    if not self._less(None, y, x):
                        dup, pos = True, i + 1
                        if not multi:
                            break
                if dup and not multi:
                    continue
                out.insert(pos, copy_value(x))
            return Vec(out)
        if rq.startswith("std::shared_ptr<"):
            if not vals:
                return SharedPtr(None)
            v = vals[0]
            if len(vals) >= 2 and isinstance(vals[1], Pointer):
                # aliasing constructor shared_ptr(owner, raw): points at *raw (it does not own it - R-OWN.borrow's business)
                return SharedPtr(val(vals[1].lv))
            if isinstance(v, Pointer):
                # shared_ptr(raw [, deleter]): points at *raw
                return SharedPtr(val(v.lv))
            if isinstance(v, SharedPtr):
                if d.get("movector") and isinstance(args[0], LV):
                    t = v.target
                    v.target = None
                    return SharedPtr(t)
                return SharedPtr(v.target)
            if v is NULLPTR:
                return SharedPtr(None)
            raise OutOfFragment("shared_ptr constructor")
        if rq.startswith("std::array<"):
            if vals and isinstance(vals[0], Arr):
                return vals[0].copy()
            if not vals:
                return self.default_value(rq)
            if all(isinstance(v, Sc) for v in vals):
                return Arr(list(vals))
            raise OutOfFragment("array constructor from %r" % (vals,))
        if rq.startswith("__gnu_cxx::__normal_iterator<") or rq.startswith("std::reverse_iterator<"):
            if vals and isinstance(vals[0], Iter):
                return vals[0].copy()
        if rq.startswith(("std::less<", "std::greater<", "std::less_equal<", "std::greater_equal<", "std::equal_to<",
                          "std::not_equal_to<")):
            return Functor({"less": "<", "greater": ">", "less_equal": "<=", "greater_equal": ">=",
                            "equal_to": "==", "not_equal_to": "!="}[rq[5:].split("<")[0]])
        if rq.startswith("std::pair<"):
            pr = Obj("std::pair", None)
            if len(vals) == 2:
                pr.fields = {"first": copy_value(vals[0]), "second": copy_value(vals[1])}
                return pr
            if len(vals) == 1 and isinstance(vals[0], Obj) and vals[0].cls == "std::pair":
                return vals[0].copy()
            if not vals:
                pr.fields = {"first": 0, "second": 0}
                return pr
        if rq.startswith(("std::back_insert_iterator<", "std::insert_iterator<")):
            if vals and isinstance(vals[0], Inserter):
                return vals[0]
        if rq.startswith("std::initializer_list<"):
            if vals and isinstance(vals[0], Vec):
                return vals[0]
        if rq.startswith("std::basic_string<") or rq.startswith("std::__cxx11::basic_string<"):
            return "str"
        raise OutOfFragment("constructor of %s" % rq)

    # -- calls -----------------------------------------------------------------------------
    def ev_CallExpr(self, e):
        return self._call(e)

    ev_CXXMemberCallExpr = ev_CXXOperatorCallExpr = ev_CallExpr

    def _call(self, e):
        from .ast import call_info
        ci = call_info(self.u, e)
        if ci is None or ci.decl is None:
            # call through a closure object held in a variable: operator() resolved as member op call
            raise OutOfFragment("unresolved call at line %s" % e.get("l"))
        d = ci.decl
        qn = d["qn"]
        if d.get("recqn", "").startswith(RECSOLVER):
            return self._recsolver_call(ci, d, e)
        if d.get("recqn", "").startswith(INIT) or (qn.startswith("vt::operator") and d.get("params") and
                                                   d["params"][0]["type"].replace("const ", "").startswith(INIT)):
            return self._init_call(ci, d, e)
        if d.get("recqn") == ARCH or (qn.startswith("vt::operator") and d.get("pfile", "").endswith("/arch.h")):
            return self._arch_call(ci, d, e)
        f = self.func(d["id"]) if (d.get("inroot") or qn.startswith("bspline::")) else None
        if f is not None and (f.in_repo() or f.decl.get("lambdaop") or f.decl["pfile"].startswith(_DRIVERS)):
            this = None
            if ci.obj is not None:
                o = self.ev(ci.obj)
                this = val(o)
                if isinstance(this, (Iter, Pointer)):
                    this = val(self.deref(this))
                if isinstance(this, SharedPtr):
                    this = this.target
            args = [self.ev(a) for a in ci.args]
            if d.get("copyassign") or d.get("moveassign"):
                if d.get("defaulted"):
                    self.assign_memberwise(this, val(args[0]), move=bool(d.get("moveassign")))
                    return box(this)
            r = self.call(f, this, args)
            return r
        if d.get("inroot") and (d.get("copyassign") or d.get("moveassign")) and ci.obj is not None:
            this = val(self.ev(ci.obj))
            src = val(self.ev(ci.args[0]))
            self.assign_memberwise(this, src, move=bool(d.get("moveassign")))
            return box(this)
        return self.std_call(ci, e)

    def _emit(self, out, k, value):
        """Write `value` as the k-th output of an algorithm (plain iterator or back_inserter)."""
        if isinstance(out, Inserter):
            out.vec.items.append(copy_value(value))
        else:
            self.deref(Iter(out.vec, out.pos + k)).store(copy_value(value))

    def _invoke(self, fn, args):
        """Call a closure / functor object with arbitrary arguments and return its value."""
        fn = val(fn)
        if isinstance(fn, Closure):
            f = self.func(fn.callop)
            if f is None:
                raise OutOfFragment("lambda without body")
            return self.call(f, fn, list(args))
        if isinstance(fn, (Functor, NotFn)):
            return 1 if self._callable(fn, *args) else 0
        if isinstance(fn, tuple) and fn and fn[0] == "fnref":
            f = self.func(fn[1])
            if f is not None:
                return self.call(f, None, list(args))
        raise OutOfFragment("callable %r" % (fn,))

    def _callable(self, fn, *args):
        fn = val(fn)
        if isinstance(fn, NotFn):
            return not self._callable(fn.inner, *args)
        if isinstance(fn, Functor):
            x, y = val(args[0]), val(args[1])
            if isinstance(x, Sc):
                return sc_cmp(fn.op, x, y)
            return {"<": x < y, "<=": x <= y, ">": x > y, ">=": x >= y, "==": x == y, "!=": x != y}[fn.op]
        if isinstance(fn, Closure):
            f = self.func(fn.callop)
            if f is None:
                raise OutOfFragment("lambda without body")
            return self.truth(self.call(f, None, list(args)))
        raise OutOfFragment("callable %r" % (fn,))

    def _less(self, comp, a, b):
        if comp is not None:
            return self._callable(comp, a, b)
        a, b = val(a), val(b)
        if isinstance(a, Sc) and isinstance(b, Sc):
            return sc_cmp("<", a, b)
        if isinstance(a, int) and isinstance(b, int):
            return a < b
        raise OutOfFragment("ordering of %r and %r" % (a, b))

    def _eq(self, a, b):
        a, b = val(a), val(b)
        if isinstance(a, Sc) and isinstance(b, Sc):
            return sc_cmp("==", a, b)
        if isinstance(a, int) and isinstance(b, int):
            return a == b
        if isinstance(a, Vec) and isinstance(b, Vec):
            return len(a.items) == len(b.items) and all(self._eq(x, y) for x, y in zip(a.items, b.items))
        if isinstance(a, Obj) and isinstance(b, Obj):
            eq = None
            for d in self.methods.get(a.rec["id"], ()):
                if d["name"] == "operator==":
                    eq = self.func(d["id"])
            if eq is None:
                raise OutOfFragment("no operator== for %s" % a.cls)
            return self.truth(self.call(eq, a, [box(b)]))
        raise OutOfFragment("equality of %r and %r" % (a, b))

    def _recsolver_call(self, ci, d, e):
        m = val(self.ev(ci.obj))
        if not isinstance(m, RecSolverModel):
            raise OutOfFragment("vt::RecSolver member on %r" % (m,))
        name = d["name"]
        idx = [self.rv(a) for a in ci.args]
        if any(not isinstance(i, int) for i in idx):
            raise OutOfFragment("vt::RecSolver::%s with a non-integer index" % name)
        for i in idx:
            if i < 0 or i >= m.n:
                raise ModelUB("solver.%s(%s) outside the %d x %d system" % (name, ", ".join(map(str, idx)), m.n, m.n))
        if name == "M":
            key = (idx[0], idx[1])
            if key not in m.M:
                m.M[key] = Sc(0)
                m.log.append(("M",) + key)
            return LV(m.M, key)
        if name == "b":
            if idx[0] not in m.b:
                m.b[idx[0]] = Sc(0)
                m.log.append(("b", idx[0]))
            return LV(m.b, idx[0])
        if name == "solve":
            m.solved = True
            return None
        if name == "x":
            if not m.solved:
                raise ModelUB("solver.x() is read before solve()")
            if idx[0] not in m.x:
                m.x[idx[0]] = Sc.atom(("u", idx[0]))
            return LV(m.x, idx[0])
        raise OutOfFragment("vt::RecSolver::%s" % name)

    def _init_call(self, ci, d, e):
        name = d["name"]
        if ci.obj is not None:
            lv = self.ev(ci.obj)
            it = val(lv)
            if not isinstance(it, SinglePass):
                raise OutOfFragment("vt::InIt member on %r" % (it,))
            if name == "operator*":
                if it.at_end():
                    raise ModelUB("a single-pass iterator is dereferenced after its range has been consumed")
                return LV(it.stream["items"], it.stream["pos"])
            if name == "operator++":
                if it.at_end():
                    raise ModelUB("a single-pass iterator is incremented past the end of its range")
                it.stream["pos"] += 1
                return lv if not ci.args else None
            if name == "operator=":
                src = self.rv(ci.args[0])
                it.stream = src.stream
                return lv
            raise OutOfFragment("vt::InIt member %s" % name)
        x, y = self.rv(ci.args[0]), self.rv(ci.args[1])
        if not (isinstance(x, SinglePass) and isinstance(y, SinglePass)):
            raise OutOfFragment("vt::InIt comparison with %r" % (y,))
        # only comparisons against the end of the range are meaningful for input iterators
        if x.stream is not None and y.stream is not None and x.stream is not y.stream:
            raise ModelUB("comparison of single-pass iterators over different streams")
        same = x.at_end() == y.at_end()
        return 1 if (same == (name == "operator==")) else 0

    def _int_to_scalar(self, v, e):
        if isinstance(v, int) and abs(v) > 2147483647:
            fn = self.frames[-1]["__fn__"] if self.frames else None
            self.bigconv.append((fn.pkey, fn.pqn, fn.qn, e.get("l"), v) if fn is not None else None)

    def _arch_call(self, ci, d, e):
        """Operators of the scalar archetype vt::Arch act on the abstract scalar domain exactly like the built-in
        operators of double (drivers/arch.h gives them no meaning of their own)."""
        name = d["name"]
        op = name[len("operator"):]
        args = list(ci.args)
        if ci.obj is not None:
            lv = self.ev(ci.obj)
            if op in ("+=", "-=", "*=", "/="):
                y = self.rv(args[0])
                r = self.binop(op[:-1], lv.load() if isinstance(lv, LV) else val(lv), y, e)
                lv.store(r)
                return lv
            if op == "=":
                lv.store(self.rv(args[0]))
                return lv
            if op == "-" and not args:
                return sc_arith("*", Sc(-1), val(lv))
            raise OutOfFragment("vt::Arch member %s" % name)
        if len(args) == 2 and op in ("+", "-", "*", "/", "<", "<=", ">", ">=", "==", "!="):
            return self.binop(op, self.rv(args[0]), self.rv(args[1]), e)
        raise OutOfFragment("vt::Arch operation %s" % name)

    def std_call(self, ci, e):
        d = ci.decl
        qn = d["qn"]
        name = d["name"]
        rq = d.get("recqn", "")
        A = [self.ev(a) for a in ci.args]
        A = [a for a in A if a is not DEFAULTARG]
        V = [val(a) for a in A]
        obj = self.ev(ci.obj) if ci.obj is not None else None
        o = val(obj) if obj is not None else None
        if isinstance(o, Pointer):   # p->size(), (*p)[i] on std containers
            o = val(o.lv)

        # ---- std::numeric_limits<T>::... of the scalar type: the exact domain has no infinity and no rounding; the values
        # are stand-ins that compare like the real ones against every value a region can hold
        if rq.startswith("std::numeric_limits<") and self.is_scalar_type(rq[len("std::numeric_limits<"):-1]):
            big = Fraction(10) ** 40
            tab = {"infinity": big, "max": big / 2, "lowest": -big / 2, "min": 1 / big, "denorm_min": 1 / (big * big),
                   "epsilon": Fraction(1, 2 ** 52), "quiet_NaN": NAN, "signaling_NaN": NAN}
            if name in tab:
                return Sc(tab[name])
        # ---- free std functions
        if ci.kind == "free":
            base = qn.split("<")[0]
            if base in ("std::abs", "abs", "std::fabs", "fabs") and len(V) == 1 and isinstance(V[0], Sc):
                x_ = V[0]
                if x_.v is None:
                    return Sc(None, x_.deps, lin=None, mono=x_.mono)
                return x_ if x_.v == NAN or x_.v >= 0 else sc_arith("*", Sc(-1), x_)
            if base in ("std::isnan", "isnan", "std::isfinite", "isfinite") and len(V) == 1 and isinstance(V[0], Sc):
                # opaque (value-dependent) scalars stand for ordinary finite numbers
                isn = V[0].v == NAN
                return (1 if isn else 0) if base.endswith("isnan") else (0 if isn else 1)
            if base in ("memcmp", "std::memcmp", "bcmp") and len(V) == 3 and isinstance(V[0], RawBytes) and \
                    isinstance(V[1], RawBytes) and isinstance(V[2], int):
                a, b, nbytes = V
                if a.elsize != b.elsize or nbytes % a.elsize:
                    raise OutOfFragment("memcmp over partial elements")
                k = nbytes // a.elsize
                for r in (a, b):
                    if r.it.pos < 0 or r.it.pos + k > len(r.it.vec.items):
                        raise ModelUB("memcmp reads %d elements from position %d of a block of %d" % (
                            k, r.it.pos, len(r.it.vec.items)))
                fn = self.frames[-1]["__fn__"] if self.frames else None
                self.rawcmp.append((fn.pkey, fn.pqn, fn.qn, e.get("l")) if fn is not None else None)
                for i in range(k):
                    x, y = a.it.vec.items[a.it.pos + i], b.it.vec.items[b.it.pos + i]
                    if not (isinstance(x, Sc) and isinstance(y, Sc)):
                        raise OutOfFragment("memcmp over non-scalar storage")
                    if x.v is None or y.v is None or x.v is NAN or y.v is NAN or x.v != y.v:
                        if x.v is None or y.v is None:
                            raise OutOfFragment("memcmp of value-dependent scalars")
                        return 1
                return 0
            if base in ("std::move", "std::forward", "std::as_const", "std::addressof"):
                return A[0]
            if base in ("std::swap", "std::iter_swap") and len(A) == 2:
                a_, b_ = A
                if base == "std::iter_swap":
                    a_, b_ = self.deref(V[0]), self.deref(V[1])
                if not (isinstance(a_, LV) and isinstance(b_, LV)):
                    raise OutOfFragment("swap of non-lvalues")
                x_, y_ = a_.load(), b_.load()
                if isinstance(x_, Obj) and isinstance(y_, Obj):
                    x_.fields, y_.fields = y_.fields, x_.fields
                elif isinstance(x_, Vec) and isinstance(y_, Vec):
                    x_.items, y_.items = y_.items, x_.items
                else:
                    a_.store(y_)
                    b_.store(x_)
                return None
            if base == "std::exchange" and len(A) == 2:
                old = copy_value(A[0])
                A[0].store(copy_value(A[1]))
                return old
            if base in ("std::min", "std::max"):
                comp = A[2] if len(A) > 2 else None
                x, y = A[0], A[1]
                if base == "std::min":
                    return y if self._less(comp, y, x) else x
                return y if self._less(comp, x, y) else x
            if base == "std::distance" and isinstance(V[0], SinglePass):
                return len(V[0].take_all())   # counting consumes a single-pass range
            if base == "std::distance":
                a, b = V
                if a.vec is not b.vec:
                    raise ModelUB("distance between different containers")
                return b.pos - a.pos
            if base in ("std::next", "std::prev"):
                n = V[1] if len(V) > 1 else 1
                return Iter(V[0].vec, V[0].pos + (n if base == "std::next" else -n), V[0].rev)
            if base in ("std::lower_bound", "std::upper_bound"):
                first, last, x = V[0], V[1], A[2]
                comp = A[3] if len(A) > 3 else None
                items = first.vec.items
                lo, hi = first.pos, last.pos
                if lo < 0 or hi > len(items) or lo > hi:
                    raise ModelUB("invalid iterator range")
                # the standard's definition on a partitioned range: first position where the predicate flips;
                # evaluate by binary search exactly like the reference algorithm (handles unordered values)
                cnt = hi - lo
                pos = lo
                while cnt > 0:
                    half = cnt // 2
                    mid = pos + half
                    if base == "std::lower_bound":
                        go = self._less(comp, LV(items, mid), x)
                    else:
                        go = not self._less(comp, x, LV(items, mid))
                    if go:
                        pos = mid + 1
                        cnt -= half + 1
                    else:
                        cnt = half
                return Iter(first.vec, pos)
            if base == "std::equal":
                first1, last1, first2 = V[0], V[1], V[2]
                last2 = V[3] if len(V) > 3 and isinstance(V[3], Iter) else None
                pred = None
                if len(V) > 3 and not isinstance(V[3], Iter):
                    pred = A[3]
                if len(V) > 4:
                    pred = A[4]
                n1 = last1.pos - first1.pos
                if last2 is not None and (last2.pos - first2.pos) != n1:
                    return 0
                for i in range(n1):
                    a_ = self.deref(Iter(first1.vec, first1.pos + i))
                    b_ = self.deref(Iter(first2.vec, first2.pos + i))
                    ok = self._callable(pred, a_, b_) if pred is not None else self._eq(a_, b_)
                    if not ok:
                        return 0
                return 1
            if base == "std::make_pair" and len(A) == 2:
                pr = Obj("std::pair", None)
                pr.fields = {"first": copy_value(A[0]), "second": copy_value(A[1])}
                return pr
            if base == "std::get" and len(A) == 1:
                import re as _re
                m_ = _re.search(r"std::get<(\d+)", qn)
                x_ = V[0]
                if m_ and isinstance(x_, Vec):
                    i_ = int(m_.group(1))
                    if i_ >= len(x_.items):
                        raise ModelUB("std::get index out of range")
                    return LV(x_.items, i_)
                if m_ and isinstance(x_, Obj) and x_.cls == "std::pair":
                    return LV(x_.fields, "first" if m_.group(1) == "0" else "second")
            if base in ("std::back_inserter", "std::inserter", "std::front_inserter"):
                if isinstance(V[0], Vec) and base == "std::back_inserter":
                    return Inserter(V[0])
            if base == "std::unique_copy":
                first, last, out = V[0], V[1], V[2]
                prev = None
                n_out = 0
                for i in range(first.pos, last.pos):
                    x_ = first.vec.items[i]
                    if prev is None or not self._eq(prev, x_):
                        self._emit(out, n_out, x_)
                        n_out += 1
                        prev = x_
                return out if isinstance(out, Inserter) else Iter(out.vec, out.pos + n_out)
            if base == "std::clamp":
                x, lo, hi = A[0], A[1], A[2]
                comp = A[3] if len(A) > 3 else None
                if self._less(comp, x, lo):
                    return lo
                if self._less(comp, hi, x):
                    return hi
                return x
            if base in ("std::minmax", "std::min", "std::max") and len(A) >= 1 and isinstance(V[0], Vec):
                comp = A[1] if len(A) > 1 else None
                items = V[0].items
                if not items:
                    raise ModelUB("min/max of an empty initializer list")
                lo = hi = items[0]
                for x_ in items[1:]:
                    if self._less(comp, x_, lo):
                        lo = x_
                    if not self._less(comp, x_, hi):
                        hi = x_
                if base == "std::min":
                    return copy_value(lo)
                if base == "std::max":
                    return copy_value(hi)
                pr = Obj("std::pair", None)
                pr.fields = {"first": copy_value(lo), "second": copy_value(hi)}
                return pr
            if base == "std::minmax" and len(A) >= 2 and not isinstance(V[0], Vec):
                comp = A[2] if len(A) > 2 else None
                a_, b_ = A[0], A[1]
                pr = Obj("std::pair", None)
                if self._less(comp, b_, a_):
                    pr.fields = {"first": copy_value(b_), "second": copy_value(a_)}
                else:
                    pr.fields = {"first": copy_value(a_), "second": copy_value(b_)}
                return pr
            if base in ("std::max_element", "std::min_element"):
                first, last = V[0], V[1]
                comp = A[2] if len(A) > 2 else None
                if first.pos == last.pos:
                    return Iter(first.vec, last.pos)
                best = first.pos
                for i in range(first.pos + 1, last.pos):
                    a_, b_ = LV(first.vec.items, best), LV(first.vec.items, i)
                    if (base == "std::max_element" and self._less(comp, a_, b_)) or \
                            (base == "std::min_element" and self._less(comp, b_, a_)):
                        best = i
                return Iter(first.vec, best)
            if base == "std::accumulate":
                first, last = V[0], V[1]
                acc = copy_value(A[2])
                fn = A[3] if len(A) > 3 else None
                for i in range(first.pos, last.pos):
                    el = LV(first.vec.items, i)
                    if fn is None:
                        x_, y_ = val(acc), el.load()
                        if isinstance(x_, Sc) and isinstance(y_, Sc):
                            acc = sc_arith("+", x_, y_)
                        elif isinstance(x_, int) and isinstance(y_, int):
                            acc = x_ + y_
                        else:
                            raise OutOfFragment("accumulate of %r" % (y_,))
                    else:
                        acc = copy_value(self._invoke(fn, [box(acc), el]))
                return acc
            if base in ("std::copy", "std::copy_n", "std::move") and len(V) == 3 and isinstance(V[0], Iter) and \
                    isinstance(V[2], (Iter, Inserter)):
                first = V[0]
                n_ = V[1] if base == "std::copy_n" else V[1].pos - first.pos
                out = V[2]
                for i in range(n_):
                    self._emit(out, i, self.deref(Iter(first.vec, first.pos + i)))
                return out if isinstance(out, Inserter) else Iter(out.vec, out.pos + n_)
            if base in ("std::fill", "std::fill_n"):
                first = V[0]
                n_ = V[1] if base == "std::fill_n" else V[1].pos - first.pos
                x = A[2]
                for i in range(n_):
                    self.deref(Iter(first.vec, first.pos + i)).store(copy_value(x))
                return Iter(first.vec, first.pos + n_) if base == "std::fill_n" else None
            if base == "std::iota":
                first, last = V[0], V[1]
                x = V[2]
                for i in range(first.pos, last.pos):
                    first.vec.items[i] = x
                    x = x + 1 if isinstance(x, int) else sc_arith("+", x, Sc(1))
                return None
            if base == "std::reverse":
                first, last = V[0], V[1]
                first.vec.items[first.pos:last.pos] = first.vec.items[first.pos:last.pos][::-1]
                return None
            if base == "std::for_each":
                first, last = V[0], V[1]
                for i in range(first.pos, last.pos):
                    self._invoke(A[2], [LV(first.vec.items, i)])
                return A[2]
            if base == "std::transform":
                first, last = V[0], V[1]
                if len(V) == 4:
                    out, fn = V[2], A[3]
                    for i in range(last.pos - first.pos):
                        r_ = self._invoke(fn, [LV(first.vec.items, first.pos + i)])
                        self._emit(out, i, r_)
                    return out if isinstance(out, Inserter) else Iter(out.vec, out.pos + last.pos - first.pos)
                first2, out, fn = V[2], V[3], A[4]
                for i in range(last.pos - first.pos):
                    r_ = self._invoke(fn, [LV(first.vec.items, first.pos + i), LV(first2.vec.items, first2.pos + i)])
                    self._emit(out, i, r_)
                return out if isinstance(out, Inserter) else Iter(out.vec, out.pos + last.pos - first.pos)
            if base == "std::not_fn":
                inner = val(A[0])
                neg = {"<": ">=", ">": "<=", "<=": ">", ">=": "<", "==": "!=", "!=": "=="}
                if isinstance(inner, Functor) and False:
                    return Functor(neg[inner.op])  # not equivalent for unordered values: keep the wrapper
                return NotFn(inner)
            if base == "std::mismatch":
                first1, last1, first2 = V[0], V[1], V[2]
                last2 = V[3] if len(V) > 3 and isinstance(V[3], Iter) else None
                pred = A[-1] if not isinstance(V[-1], Iter) else None
                i = 0
                while first1.pos + i < last1.pos and (last2 is None or first2.pos + i < last2.pos):
                    a_ = self.deref(Iter(first1.vec, first1.pos + i))
                    b_ = self.deref(Iter(first2.vec, first2.pos + i))
                    same = self._callable(pred, a_, b_) if pred is not None else self._eq(a_, b_)
                    if not same:
                        break
                    i += 1
                pr = Obj("std::pair", None)
                pr.fields = {"first": Iter(first1.vec, first1.pos + i), "second": Iter(first2.vec, first2.pos + i)}
                return pr
            if base == "std::adjacent_find":
                first, last = V[0], V[1]
                pred = A[2] if len(A) > 2 else None
                if first.pos > last.pos:
                    raise ModelUB("invalid iterator range")
                if first.pos == last.pos:
                    return Iter(first.vec, last.pos)
                for i in range(first.pos, last.pos - 1):
                    a_, b_ = LV(first.vec.items, i), LV(first.vec.items, i + 1)
                    a_.load(), b_.load()
                    hit = self._callable(pred, a_, b_) if pred is not None else self._eq(a_, b_)
                    if hit:
                        return Iter(first.vec, i)
                return Iter(first.vec, last.pos)
            if base in ("std::is_sorted", "std::is_sorted_until"):
                first, last = V[0], V[1]
                comp = A[2] if len(A) > 2 else None
                pos = last.pos
                for i in range(first.pos, last.pos - 1):
                    if self._less(comp, LV(first.vec.items, i + 1), LV(first.vec.items, i)):
                        pos = i + 1
                        break
                return (1 if pos == last.pos else 0) if base == "std::is_sorted" else Iter(first.vec, pos)
            if base in ("std::find", "std::find_if", "std::find_if_not", "std::all_of", "std::any_of", "std::none_of",
                        "std::count", "std::count_if"):
                first, last = V[0], V[1]
                hits = []
                for i in range(first.pos, last.pos):
                    el = LV(first.vec.items, i)
                    el.load()
                    if base in ("std::find", "std::count"):
                        h = self._eq(el, A[2])
                    else:
                        h = self.truth(self._invoke(A[2], [el]))
                    hits.append(h)
                if base == "std::find":
                    return Iter(first.vec, first.pos + hits.index(True) if True in hits else last.pos)
                if base == "std::find_if":
                    return Iter(first.vec, first.pos + hits.index(True) if True in hits else last.pos)
                if base == "std::find_if_not":
                    return Iter(first.vec, first.pos + hits.index(False) if False in hits else last.pos)
                if base == "std::all_of":
                    return 1 if all(hits) else 0
                if base == "std::any_of":
                    return 1 if any(hits) else 0
                if base == "std::none_of":
                    return 0 if any(hits) else 1
                return sum(1 for h in hits if h)
            if base == "std::unique":
                first, last = V[0], V[1]
                items = first.vec.items
                seg = items[first.pos:last.pos]
                out = []
                for x in seg:
                    if not out or not self._eq(out[-1], x):
                        out.append(x)
                items[first.pos:first.pos + len(out)] = out
                return Iter(first.vec, first.pos + len(out))
            if base == "std::make_shared":
                t = d["rtype"]
                inner = t[len("std::shared_ptr<"):]
                if inner.replace("const ", "").startswith("std::vector<"):
                    if not V:
                        return SharedPtr(Vec())
                    if isinstance(V[0], Vec):
                        if isinstance(A[0], LV) and ci.args and ci.args[0].get("vc") == "x":
                            items = V[0].items
                            V[0].items = []
                            return SharedPtr(Vec(items))
                        return SharedPtr(Vec([copy_value(x) for x in V[0].items]))
                    if isinstance(V[0], Iter) and isinstance(V[1], Iter):
                        a, b = V[0], V[1]
                        if a.vec is not b.vec or a.pos > b.pos:
                            raise ModelUB("invalid iterator range")
                        return SharedPtr(Vec([copy_value(x) for x in a.vec.items[a.pos:b.pos]]))
                    if isinstance(V[0], SinglePass) and len(V) > 1 and isinstance(V[1], SinglePass):
                        return SharedPtr(Vec([copy_value(x) for x in V[0].take_all()]))
                raise OutOfFragment("make_shared of %s" % t)
            if qn.startswith("std::operator") and name in ("operator==", "operator!="):
                base = "std::" + name
                x, y = V
                if isinstance(x, Iter) and isinstance(y, Iter):
                    if x.vec is not y.vec:
                        raise ModelUB("comparison of iterators into different containers")
                    r = x.pos == y.pos
                elif isinstance(x, SharedPtr) or isinstance(y, SharedPtr):
                    tx = x.target if isinstance(x, SharedPtr) else None
                    ty = y.target if isinstance(y, SharedPtr) else None
                    r = tx is ty
                elif isinstance(x, Opt) and isinstance(y, Opt):
                    r = (x.has == y.has) and (not x.has or self._eq(x.v, y.v))
                elif isinstance(x, Opt) or isinstance(y, Opt):
                    op_, other = (x, y) if isinstance(x, Opt) else (y, x)
                    r = (not op_.has) if other is NULLOPT else (op_.has and self._eq(op_.v, other))
                else:
                    r = self._eq(x, y)
                return 1 if (r == (base == "std::operator==")) else 0
            if name.startswith("operator") and (qn.startswith("__gnu_cxx::operator") or qn.startswith("std::operator")):
                op = name[len("operator"):]
                x, y = V
                if isinstance(x, (Iter, int)) and isinstance(y, (Iter, int)):
                    return self.binop(op, x, y, e)
            if qn.startswith("boost::math::quadrature::gauss<") and name == "integrate":
                # Gauss-Legendre quadrature of a callable over [a, b]: the result is built from the integrand's
                # values at nodes inside [a, b] (dependence model; Boost's tables are constants)
                fn, a_, b_ = V[0], V[1], V[2]
                x = Sc(None, a_.deps | b_.deps, lin=None, mono=_M1)
                if not isinstance(fn, Closure):
                    raise OutOfFragment("integrand is not a lambda")
                ff = self.func(fn.callop)
                r = val(self.call(ff, fn, [box(x)]))
                if not isinstance(r, Sc):
                    raise OutOfFragment("integrand value %r" % (r,))
                # the contribution of this sub-interval is one opaque quantity q[a,b]: sums of contributions stay affine
                # in these atoms, so the caller can see that every interval is accumulated exactly once
                gi = tuple(sorted(d_[1] for d_ in (a_.deps | b_.deps) if d_[0] == "grid" and len(d_) > 1))
                return Sc(None, r.deps | a_.deps | b_.deps, lin={("q",) + gi: Fraction(1)}, pure=True, mono=r.mono)
            if base in ("std::begin", "std::cbegin"):
                return Iter(V[0], 0)
            if base in ("std::end", "std::cend"):
                return Iter(V[0], len(V[0].items))
            if base in ("std::size",):
                return len(V[0].items)
            raise OutOfFragment("call to %s" % qn[:90])

        # ---- member functions of std classes
        if isinstance(o, Iter) or rq.startswith(("__gnu_cxx::__normal_iterator<", "std::reverse_iterator<")):
            if name == "operator*":
                return self.deref(o)
            if name == "operator->":
                return self.deref(o)
            if name in ("operator++", "operator--"):
                delta = 1 if name == "operator++" else -1
                old = o.copy()
                o.pos += delta
                return old if ci.args else obj
            if name in ("operator+", "operator-"):
                if isinstance(V[0], Iter):
                    return o.pos - V[0].pos
                return Iter(o.vec, o.pos + (V[0] if name == "operator+" else -V[0]), o.rev)
            if name in ("operator+=", "operator-="):
                o.pos += V[0] if name == "operator+=" else -V[0]
                return obj
            if name == "operator[]":
                return self.deref(Iter(o.vec, o.pos + V[0], o.rev))
            if name == "base":
                return o
            if name == "operator=":
                src = V[0]
                o.vec, o.pos, o.rev = src.vec, src.pos, src.rev
                return obj
        if isinstance(o, Opt):
            if name in ("operator bool", "has_value"):
                return 1 if o.has else 0
            if name == "operator*" or name == "operator->":
                if not o.has:
                    raise ModelUB("dereference of empty optional")
                return LV(o.__dict__, "v")
            if name == "value":
                if not o.has:
                    raise Thrown("std::bad_optional_access", None, e.get("l"))
                return LV(o.__dict__, "v")
            if name == "value_or":
                return copy_value(o.v) if o.has else copy_value(V[0])
            if name == "operator=":
                src = V[0]
                if src is NULLOPT:
                    o.has, o.v = False, None
                elif isinstance(src, Opt):
                    o.has, o.v = src.has, copy_value(src.v)
                else:
                    o.has, o.v = True, copy_value(src)
                return obj
            if name == "reset":
                o.has, o.v = False, None
                return None
            if name == "emplace" and len(V) == 1:
                o.has, o.v = True, copy_value(V[0])
                return LV(o.__dict__, "v")
        if isinstance(o, SharedPtr):
            if name == "operator bool":
                return 1 if o.target is not None else 0
            if name in ("operator*", "operator->", "get"):
                if o.target is None:
                    if name == "get":
                        return NULLPTR
                    raise ModelUB("null shared_ptr dereference")
                return box(o.target)
            if name == "operator=":
                src = V[0]
                if d.get("moveassign") or (ci.args and ci.args[0].get("vc") == "x"):
                    t = src.target
                    src.target = None
                    o.target = t
                else:
                    o.target = src.target
                return obj
            if name == "use_count":
                raise OutOfFragment("use_count")
        if isinstance(o, Vec):
            n = len(o.items)
            if name == "size":
                return n
            if name == "empty":
                return 1 if n == 0 else 0
            if name == "operator[]":
                i = V[0]
                if i < 0 or i >= n:
                    raise ModelUB("vector/array subscript %d out of range (size %d)" % (i, n))
                return LV(o.items, i)
            if name == "at":
                i = V[0]
                if i < 0 or i >= n:
                    raise Thrown("std::out_of_range", None, e.get("l"))
                return LV(o.items, i)
            if name == "front":
                if n == 0:
                    raise ModelUB("front() of empty container")
                return LV(o.items, 0)
            if name == "back":
                if n == 0:
                    raise ModelUB("back() of empty container")
                return LV(o.items, n - 1)
            if name in ("begin", "cbegin"):
                return Iter(o, 0)
            if name in ("end", "cend"):
                return Iter(o, n)
            if name in ("rbegin", "crbegin"):
                return Iter(o, 0, True)
            if name in ("rend", "crend"):
                return Iter(o, n, True)
            if name == "push_back" or (name == "emplace_back" and len(A) == 1 and not self._needs_construct(rq, V[0])):
                o.items.append(copy_value(A[0]))
                return None
            if name == "emplace_back":
                o.items.append(self._construct_element(rq, A, e))
                return LV(o.items, len(o.items) - 1)
            if name == "reserve":
                if V and isinstance(V[0], int) and V[0] > (1 << 60):
                    raise Thrown("std::length_error", None, e.get("l"))
                return None
            if name == "clear":
                o.items[:] = []
                return None
            if name == "resize":
                k = V[0]
                if k < 0 or k > 100000:
                    raise Thrown("std::length_error", None, e.get("l"))
                if k <= n:
                    del o.items[k:]
                else:
                    fill = V[1] if len(V) > 1 else None
                    for _ in range(k - n):
                        if fill is not None:
                            o.items.append(copy_value(fill))
                        else:
                            o.items.append(self.default_elem(rq))
                return None
            if name == "assign":
                if isinstance(V[0], Iter):
                    o.items[:] = [copy_value(x) for x in V[0].vec.items[V[0].pos:V[1].pos]]
                else:
                    if V[0] > 100000:
                        raise Thrown("std::length_error", None, e.get("l"))
                    o.items[:] = [copy_value(V[1]) for _ in range(V[0])]
                return None
            if name == "insert" and len(V) == 2 and isinstance(V[0], Iter):
                if V[0].pos < 0 or V[0].pos > n:
                    raise ModelUB("insert with invalid iterator")
                o.items.insert(V[0].pos, copy_value(V[1]))
                return Iter(o, V[0].pos)
            if name == "swap":
                o.items, V[0].items = V[0].items, o.items
                return None
            if name == "pop_back":
                if n == 0:
                    raise ModelUB("pop_back on empty vector")
                o.items.pop()
                return None
            if name == "erase":
                a = V[0]
                b = V[1] if len(V) > 1 else Iter(a.vec, a.pos + 1)
                if a.pos < 0 or b.pos > n or a.pos > b.pos or (len(V) == 1 and a.pos >= n):
                    raise ModelUB("erase with invalid iterator")
                del o.items[a.pos:b.pos]
                return Iter(o, a.pos)
            if name == "fill":
                for i in range(n):
                    o.items[i] = copy_value(V[0])
                return None
            if name == "operator=":
                src = V[0]
                if ci.args and ci.args[0].get("vc") == "x" and isinstance(A[0], LV):
                    o.items = src.items
                    src.items = []
                else:
                    o.items = [copy_value(x) for x in src.items]
                return obj
            if name == "data":
                return Iter(o, 0)
        if isinstance(o, (Functor, NotFn)) and name == "operator()":
            return 1 if self._callable(o, *A) else 0
        if isinstance(o, Closure) and name == "operator()":
            f = self.func(o.callop)
            return self.call(f, None, A)
        raise OutOfFragment("call to %s on %r with %r (line %s)" % (qn[:100], o, V[:3], e.get("l")))
