"""Positive controls: every pattern rule must flag its deliberately wrong sibling in
drivers/controls.cpp on every run (exit 2 otherwise)."""
import os

from . import config as C
from . import facts as F
from .facts import AnalysisBroken
from .report import Check

EXPECT = {
    # rule id -> list of (control name, substring of the reported function / construct)
    "R-GRD.a": [("unguarded", "ctl_unguarded"), ("guard-on-one-path", "ctl_guard_one_path")],
    "R-GRD.c": [("wrong-code", "ctl_wrong_code")],
    "R-DIV": [("reciprocal-in-S", "ctl_div"), ("negation-in-S", "ctl_neg")],
    "R-OPT": [("unchecked", "ctl_opt"), ("wrong-polarity", "ctl_opt_wrong_polarity")],
    "R-THR": [("foreign-exception", "ctl_throw")],
    "R-EX": [("erase-end", "ctl_erase_end"), ("deref-end", "ctl_deref_end")],
    "R-OWN.mutable": [("mutable-member", "mutable:hits")],
    "R-OWN.field": [("reference-member", "field:grid"), ("pointer-member", "field:raw"),
                    ("shared-nonconst", "field:shared"), ("iterator-member", "field:it")],
    "R-OWN.iface": [("non-const-public", "CtlIface::poke"), ("mutable-ref", "CtlIface::storage"),
                    ("pointer", "CtlIface::data")],
    "R-OWN.commit": [("throw-after-write", "CtlIface::commitEarly")],
    "R-OWN.cast": [("const_cast", "ctl_constcast")],
    "R-EFF.static": [("mutable-static", "mutable-static:calls")],
    "R-EFF.closure": [("rand", "ctl_rand"), ("getenv", "ctl_env")],
    "R-LIFE": [("dangling-reference", "ctl_dangling")],
    "R-LIFE.inval": [("reference-into-grown-vector", "ctl_invalidated")],
    "R-EFF.frozen": [("static-from-argument", "ctl_frozen")],
    "R-LIFE.ret": [("returns-local", "ctl_ret_local"), ("returns-temporary-through-helper", "ctl_ret_temporary")],
    "R-API.ret": [("value-to-reference", "ctl_api_ref")],
    "R-GRD.fwd": [("member-skipped-on-one-path", "CtlCompound::transform")],
    "R-OWN.borrow": [("aliasing-constructor", "CtlBorrow::CtlBorrow"), ("custom-deleter", "CtlBorrow2::CtlBorrow2")],
    "R-API.param": [("const-ref-to-forwarding-ref", "ctl_api_param")],
    "R-LIFE.seq": [("moved-and-read-in-one-call", "ctl_moved_and_read")],
    "R-OWN.fwdmove": [("move-of-forwarding-reference", "ctl_fwd_move")],
    "R-EX.init": [("size-only-eigen-matrix", "ctl_eigen_uninit"), ("size-only-eigen-member", "CtlEigenMember::CtlEigenMember")],
}

_cache = {}


def _run_all():
    if "v" in _cache:
        return _cache["v"]
    from . import r_grd, r_small, r_own
    u = F.load("controls")
    saved = list(C.LIB_EXTRA)
    C.LIB_EXTRA.append(os.path.join(C.DRIVERS, "controls.cpp"))
    try:
        c = Check("CONTROL", "other", "positive controls")
        c.known = []
        r_grd.run(c, [u])
        r_small.r_div(c, [u])
        r_small.r_opt(c, [u], scope=lambda f: "vt_control" in f.qn)
        r_small.r_thr(c, [u])
        r_small.r_ex(c, [u], lambda f: "vt_control" in f.qn)
        r_own.statics(c, [u])
        r_own.const_correctness(c, [u])
        r_own.field_types(c, [u])
        r_own.interface_shape(c, [u])
        r_own.commit_last(c, [u])
        r_own.call_closure(c, [u])
        r_own.lifetimes(c, [u], scope=lambda f: "vt_control" in f.qn)
        r_own.invalidation(c, [u], scope=lambda f: "vt_control" in f.qn)
        r_own.frozen_statics(c, [u], scope=lambda f: "vt_control" in f.qn)
        r_own.returned_references(c, [u], scope=lambda f: "vt_control" in f.qn)
        r_own.api_returns(c, [u], baseline={"vt_control::ctl_api_ref|1": "value"})
        r_grd.forwarding(c, [u])
        r_own.borrowed_shared(c, [u], scope=lambda f: "vt_control" in f.qn)
        r_own.api_params(c, [u], baseline={"vt_control::ctl_api_param|2": ["cref", "cref"]})
        if any(v["rule"] == "R-OWN.borrow" and "OkOwning" in v["function"] for v in c.violations):
            raise AnalysisBroken("R-OWN.borrow fires on an owning make_shared")
        r_small.r_arg_sequence(c, [u], lambda f: "vt_control" in f.qn)
        r_small.r_forward_move(c, [u], lambda f: "vt_control" in f.qn)
        if any(v["rule"] == "R-OWN.fwdmove" and "ok_forwarded" in v["function"] for v in c.violations):
            raise AnalysisBroken("R-OWN.fwdmove fires on std::forward")
        if sum(1 for v in c.violations if v["rule"] == "R-OWN.fwdmove") != 1:
            raise AnalysisBroken("R-OWN.fwdmove must fire exactly once on the controls (the lvalue instantiation of ctl_fwd_move)")
        saved2 = list(C.LIB_EXTRA)
        C.LIB_EXTRA.append(os.path.join(C.DRIVERS, "controls_eigen.cpp"))
        ue = F.load("controls_eigen")
        r_small.r_eigen_init(c, [ue], lambda f: "vt_control" in f.qn)
        silent = [v for v in c.violations if v["rule"] in ("R-EX.init", "R-LIFE.seq") and ("ok_" in v["function"] or "OkEigen" in v["function"])]
        if silent:
            raise AnalysisBroken("a rule fires on an accepted idiom of the controls: %s" % silent[0]["function"])
    finally:
        C.LIB_EXTRA[:] = saved
    _cache["v"] = c.violations
    return c.violations


def require(chk, rules):
    """Assert that each listed rule fired on its controls; records them on `chk`."""
    viol = _run_all()
    for rid in rules:
        for name, needle in EXPECT.get(rid, ()):
            fired = any(v["rule"] == rid and (v["function"].endswith(needle) or needle in v["construct"])
                        for v in viol)
            chk.control(rid, name, fired)
