"""R-REG suites for validating entry points (C11): generator, interpolation arguments,
default boundary table."""
import itertools

from .facts import AnalysisBroken
from .interp import DEFAULT_ATOM, NAN, Arr, Iter, Obj, Sc, Vec, box, val
from .r_reg import Cases, World, windows
from .r_reg_spl import spline_view, valid_spline


def _ns(lo, hi, ns):
    full = range(lo, hi + 1)
    return [n for n in full if ns is None or n in ns]


def generator_suite(chk, w, rule, maxlen, orders=(0, 1, 2), ns=None, fixed=True):
    """BSplineGenerator(knots[, grid]) accepts exactly non-decreasing knots with >= 2 distinct values (and a
    matching grid); generateBSplines<p> needs >= p+1 knots and returns m-p-1 functions on the generator's grid."""
    cs = Cases(chk, rule, w)
    GEN = "bspline::BSplineGenerator<%s>" % w.T
    c1 = w.ctor(GEN, lambda d: len(d["params"]) == 1 and d["params"][0]["type"].startswith("std::vector<"), "knots")
    c2 = w.ctor(GEN, lambda d: len(d["params"]) == 2 and d["params"][0]["type"].startswith("std::vector<"),
                "knots, grid")
    f1, f2 = w.I.func(c1["id"]), w.I.func(c2["id"])
    alphabet = [0, 2, 4, NAN]
    w.I.allow_const_scaling = True
    for L in _ns(0, maxlen, ns):
        for seq in itertools.product(alphabet, repeat=L):
            if sum(1 for x in seq if x == NAN) > 1:
                continue
            knots = [Sc(x) for x in seq]
            nondecr = all(a != NAN and b != NAN and a <= b for a, b in zip(seq, seq[1:])) and NAN not in seq
            distinct = sorted(set(x for x in seq if x != NAN))
            good = nondecr and len(distinct) >= 2
            case = dict(knots=["nan" if x == NAN else x for x in seq])
            o = w.run(lambda: w.I.construct(c1, [box(Vec(list(knots)))]), "BSplineGenerator(knots)")
            cs.expect(f1, "BSplineGenerator(knots) succeeds iff the knots are non-decreasing with >= 2 distinct values",
                      case, o, (o.kind == "val") if good else o.throws_lib(),
                      "a generator" if good else "throws BSplineException")
            if not good or o.kind != "val":
                continue
            gen = o.v
            # supplied grid: accepted iff it equals the distinct knot values
            for label, gv in (("matching", distinct), ("one-point-moved", distinct[:-1] + [distinct[-1] + 1]),
                              ("extra-point", distinct + [distinct[-1] + 2]), ("prefix", distinct[:-1])):
                g = w.mk_grid([Sc(x) for x in gv])
                if g.kind != "val":
                    continue
                o2 = w.run(lambda: w.I.construct(c2, [box(Vec(list(knots))), box(g.v)]), "BSplineGenerator(knots,grid)")
                cs.expect(f2, "BSplineGenerator(knots, grid) accepts exactly a grid equal to the distinct knots",
                          dict(case, grid=label), o2, (o2.kind == "val") if label == "matching" else o2.throws_lib(),
                          "a generator" if label == "matching" else "throws BSplineException")
            for p in orders:
                fg = w.method(GEN, "generateBSplines", 0, pred=lambda d, p=p: ("Spline<%s, %d>" % (w.T, p)) in
                              d["rtype"], required=False)
                if fg is None:
                    continue
                del w.I.divzero[:]
                o3 = w.call(fg, gen, [])
                dz = list(w.I.divzero)
                if dz and dz[0] is not None:
                    site = w.free(dz[0][1], lambda f, q=dz[0][2]: f.qn == q, required=False) or fg
                    cs.expect(site, "no division by an exactly-zero value on valid input (an exact field type has no "
                                    "infinity: the zero-width guards must precede the division)",
                              dict(case, order=p, line=dz[0][3]), None, False, "every division has a non-zero divisor")
                else:
                    cs.expect(fg, "no division by an exactly-zero value on valid input (an exact field type has no "
                                  "infinity: the zero-width guards must precede the division)", dict(case, order=p), None,
                              True, "every division has a non-zero divisor")
                enough = L >= p + 1
                if not enough:
                    ok = o3.throws_lib()
                    want = "throws BSplineException"
                else:
                    want = "%d functions, each a valid spline on the generator's grid" % (L - p - 1)
                    ok = o3.kind == "val" and isinstance(val(o3.v), Vec) and len(val(o3.v).items) == L - p - 1
                    if ok:
                        for sp in val(o3.v).items:
                            okv, _ = valid_spline(w, sp, len(distinct))
                            ok = ok and okv
                cs.expect(fg, "generateBSplines<p> needs >= p+1 knots and returns m-p-1 valid splines",
                          dict(case, order=p), o3, ok, want)
    return cs.flush()


FIRST, LAST = 0, 1


def _node(w, which):
    return which  # enumerators are their integer values in the evaluator


def interpolate_suite(chk, w, rule, nmax, orders=(1, 2, 3), ns=None, fixed=True):
    cs = Cases(chk, rule, w)
    w.I.allow_const_scaling = True
    brec = w.I.find_record("bspline::interpolation::Boundary<%s>" % w.T)
    if brec is None:
        raise AnalysisBroken("anchor vanished: Boundary<T> not instantiated")
    for order in orders:
        f = w.free("bspline::interpolation::interpolate",
                   lambda f: ("Spline<%s, %d>" % (w.T, order)) in f.decl["rtype"] and "StubSolver<" in f.qn and
                   "StubSolverD" not in f.qn, required=False)
        if f is None:
            raise AnalysisBroken("anchor vanished: interpolate<T,%d,StubSolver> not instantiated" % order)

        def boundaries(spec):
            items = []
            for node, deriv in spec:
                o = Obj(brec["qn"], brec)
                o.fields = {"node": _node(w, node), "derivative": deriv, "value": Sc.atom(("bv",))}
                items.append(o)
            return Arr(items)

        for n in _ns(2, nmax, ns):
            grid = w.need_grid(w.grid_values(n))
            for (s, e) in windows(n):
                sup = w.need_support(grid, s, e)
                size = e - s
                for ylen in sorted({0, 1, size - 1, size, size + 1} - {-1}):
                    ys = Vec([Sc.atom(("y", i)) for i in range(ylen)])
                    derivs = [0, 1, order, order + 1, (1 << 64) - 1]
                    specs = []
                    if order == 1:
                        specs = [()]
                    else:
                        base = [(FIRST if i % 2 == 0 else LAST, i // 2 + 1) for i in range(order - 1)]
                        specs.append(tuple(base))
                        for pos in range(order - 1):
                            for node in (FIRST, LAST):
                                for dv in derivs:
                                    b2 = list(base)
                                    b2[pos] = (node, dv)
                                    specs.append(tuple(b2))
                    for spec in specs:
                        good = ylen == size and size >= 2 and all(1 <= dv <= order for _, dv in spec)
                        o = w.call(f, None, [box(sup), box(ys), box(boundaries(spec))])
                        ok = o.throws_lib() if not good else (o.kind == "val" and isinstance(val(o.v), Obj) and
                                                               valid_spline(w, val(o.v), n)[0])
                        cs.expect(f, "interpolate accepts exactly: equally many (>= 2) abscissae and ordinates and "
                                     "boundary derivative orders in [1, order] at both nodes",
                                  dict(order=order, n=n, window=(s, e), ordinates=ylen,
                                       boundaries=[("FIRST" if a == FIRST else "LAST", ("2^64-1" if b > 99 else b))
                                                   for a, b in spec]), o, ok,
                                  "a valid spline on the given support" if good else "throws BSplineException")
    # default boundary table: derivatives 1,1,2,2,... alternating FIRST / LAST, value zero
    if fixed:
        for order in (1, 2, 3, 4):
            fd = w.free("bspline::interpolation::internal::defaultBoundaries",
                        lambda f: ("Boundary<%s>, %d>" % (w.T, order - 1)) in f.decl["rtype"], required=False)
            if fd is None:
                continue
            o = w.call(fd, None, [])
            want = [(FIRST if i % 2 == 0 else LAST, i // 2 + 1) for i in range(order - 1)]
            ok = o.kind == "val" and isinstance(val(o.v), Vec) and len(val(o.v).items) == order - 1
            if ok:
                for b, (node, dv) in zip(val(o.v).items, want):
                    nd = b.fields.get("node")
                    ok = ok and nd == node and b.fields.get("derivative") == dv and \
                        isinstance(b.fields.get("value"), Sc) and b.fields["value"].v == 0
            cs.expect(fd, "default boundaries: lowest derivatives set to zero, alternating first / last node",
                      dict(order=order), o, ok, str([("FIRST" if a == FIRST else "LAST", b) for a, b in want]))
    return cs.flush()


def generator_support_suite(chk, w, rule, maxlen, orders=(0, 1, 2, 3), ns=None, fixed=True):
    """Structural clauses of C01: count m-p-1; the i-th function is supported exactly on the knot span
    [t_i, t_{i+p+1}] (it may store zeros elsewhere; it must not vanish identically on a positive-width part of the
    span); the result does not depend on the construction route (knots alone / knots + equal grid object)."""
    cs = Cases(chk, rule, w)
    GEN = "bspline::BSplineGenerator<%s>" % w.T
    c1 = w.ctor(GEN, lambda d: len(d["params"]) == 1 and d["params"][0]["type"].startswith("std::vector<"), "knots")
    c2 = w.ctor(GEN, lambda d: len(d["params"]) == 2 and d["params"][0]["type"].startswith("std::vector<"),
                "knots, grid")
    w.I.allow_const_scaling = True
    values = [0, 2, 4, 6, 8]
    for L in _ns(2, maxlen, ns):
        # all non-decreasing sequences (multiplicity patterns) of length L over at most 5 distinct values
        for seq in itertools.combinations_with_replacement(values, L):
            distinct = sorted(set(seq))
            if len(distinct) < 2 or distinct != values[:len(distinct)]:
                continue   # canonical representatives: the distinct values are 0,2,4,... (order type of the knots)
            knots = [Sc(x) for x in seq]
            o = w.run(lambda: w.I.construct(c1, [box(Vec(list(knots)))]), "BSplineGenerator(knots)")
            if o.kind != "val":
                continue   # acceptance is C11's business
            gen = o.v
            g2 = w.mk_grid([Sc(x) for x in distinct])
            gen2 = w.run(lambda: w.I.construct(c2, [box(Vec(list(knots))), box(g2.v)]),
                         "BSplineGenerator(knots, grid)") if g2.kind == "val" else None
            idx = {v_: i for i, v_ in enumerate(distinct)}
            for p in orders:
                if L < p + 2:
                    continue
                fg = w.method(GEN, "generateBSplines", 0, pred=lambda d, p=p: ("Spline<%s, %d>" % (w.T, p)) in
                              d["rtype"], required=False)
                if fg is None:
                    continue
                case = dict(knots=list(seq), order=p)
                r = w.call(fg, gen, [])
                ok = r.kind == "val" and isinstance(val(r.v), Vec) and len(val(r.v).items) == L - p - 1
                cs.expect(fg, "generateBSplines<p> returns exactly m-p-1 functions", case, r, ok, str(L - p - 1))
                if not ok:
                    continue
                fns = val(r.v).items
                for i, sp in enumerate(fns):
                    lo, hi = idx[seq[i]], idx[seq[i + p + 1]]      # grid indices of t_i and t_{i+p+1}
                    view = spline_view(w, sp)
                    okv, why = valid_spline(w, sp, len(distinct))
                    good = okv and view is not None
                    if good:
                        (s0, e0), table, _, _ = view
                        for I in range(len(distinct) - 1):
                            arr = table.get(I)
                            inside = lo <= I < hi
                            if not inside and arr is not None and not all(isinstance(x, Sc) and x.v == 0 for x in arr):
                                good, why = False, "function %d does not vanish on interval %d outside its knot span " \
                                                   "[%d,%d]" % (i, I, lo, hi)
                            if inside and (arr is None or all(isinstance(x, Sc) and x.v == 0 for x in arr)):
                                good, why = False, "function %d vanishes identically on interval %d inside its knot " \
                                                   "span [%d,%d]" % (i, I, lo, hi)
                    if good and any(isinstance(x, Sc) and DEFAULT_ATOM in x.deps for arr in view[1].values() for x in arr):
                        good, why = False, "a coefficient of function %d depends on the value of a default-constructed " \
                                           "T (only static_cast<T>(0) is a documented zero)" % i
                    cs.expect(fg, "the i-th function is supported exactly on the knot span [t_i, t_{i+p+1}] (grid "
                                  "intervals of positive width; zero elsewhere; interval-free if the span has no width)",
                              dict(case, i=i), r, good, "support = grid window [%d,%d] (%s)" % (lo, hi, why))
                if gen2 is not None and gen2.kind == "val":
                    r2 = w.call(fg, gen2.v, [])
                    same = r2.kind == "val" and isinstance(val(r2.v), Vec) and len(val(r2.v).items) == len(fns)
                    if same:
                        for a_, b_ in zip(fns, val(r2.v).items):
                            va, vb = spline_view(w, a_), spline_view(w, b_)
                            if va is None or vb is None or va[0] != vb[0] or va[2] != vb[2]:
                                same = False
                                break
                            for I, arr in va[1].items():
                                brr = vb[1].get(I)
                                if brr is None or [x.v for x in arr] != [x.v for x in brr]:
                                    same = False
                    cs.expect(fg, "both construction routes (knots alone / knots plus an equal grid object) give the "
                                  "same functions", case, r2, same, "identical supports and coefficients")
    return cs.flush()
