"""R-REG suites for validating entry points (C11): generator, interpolation arguments,
default boundary table."""
import itertools

from .facts import AnalysisBroken
from .interp import DEFAULT_ATOM, NAN, Arr, Iter, Obj, Sc, Vec, box, val
from .r_reg import Cases, World, windows
from .r_reg_spl import spline_view, valid_spline


EXTENDED_FROM = 9


def _ns(lo, hi, ns):
    full = range(lo, hi + 1)
    ext = [n for n in (ns or ()) if n > hi and n >= EXTENDED_FROM]   # threshold extension (r_reg.run_jobs), sparse windows
    return [n for n in full if ns is None or n in ns] + ext


def generator_suite(chk, w, rule, maxlen, orders=(0, 1, 2), ns=None, fixed=True):
    """BSplineGenerator(knots[, grid]) accepts exactly non-decreasing knots with >= 2 distinct values (and a
    matching grid); generateBSplines<p> needs >= p+1 knots and returns m-p-1 functions on the generator's grid."""
    cs = Cases(chk, rule, w)
    GEN = "bspline::BSplineGenerator<%s>" % w.T
    c1 = w.ctor(GEN, lambda d: len(d["params"]) == 1 and d["params"][0]["type"].startswith("std::vector<"), "knots")
    c2 = w.ctor(GEN, lambda d: len(d["params"]) == 2 and d["params"][0]["type"].startswith("std::vector<"),
                "knots, grid")
    f1, f2 = w.I.func(c1["id"]), w.I.func(c2["id"])
    alphabet = [0, 2, 4, NAN]
    w.I.allow_const_scaling = True
    for L in _ns(0, maxlen, ns):
        for seq in itertools.product(alphabet, repeat=L):
            if sum(1 for x in seq if x == NAN) > 1:
                continue
            knots = [Sc(x) for x in seq]
            nondecr = all(a != NAN and b != NAN and a <= b for a, b in zip(seq, seq[1:])) and NAN not in seq
            distinct = sorted(set(x for x in seq if x != NAN))
            good = nondecr and len(distinct) >= 2
            case = dict(knots=["nan" if x == NAN else x for x in seq])
            o = w.run(lambda: w.I.construct(c1, [box(Vec(list(knots)))]), "BSplineGenerator(knots)")
            cs.expect(f1, "BSplineGenerator(knots) succeeds iff the knots are non-decreasing with >= 2 distinct values",
                      case, o, (o.kind == "val") if good else o.throws_lib(),
                      "a generator" if good else "throws BSplineException")
            if not good and L >= 2 and NAN not in seq:
                # the two-argument route must refuse the same knot sequences, whatever grid comes with them (a grid that
                # happens to contain every knot value, has as many points as the sequence has runs, ...)
                for gv in ([0, 2], [0, 4], [2, 4], [0, 2, 4], [0, 2, 4, 6], [0, 2, 4, 6, 8]):
                    g = w.mk_grid([Sc(x) for x in gv])
                    if g.kind != "val":
                        continue
                    o2 = w.run(lambda: w.I.construct(c2, [box(Vec(list(knots))), box(g.v)]), "BSplineGenerator(knots,grid)")
                    cs.expect(f2, "BSplineGenerator(knots, grid) accepts exactly non-decreasing knots with >= 2 distinct "
                                  "values, whatever grid is supplied", dict(case, grid=gv), o2, o2.throws_lib(),
                              "throws BSplineException")
            if not good or o.kind != "val":
                continue
            gen = o.v
            # supplied grid: accepted iff it equals the distinct knot values
            variants = [("matching", distinct), ("one-point-moved", distinct[:-1] + [distinct[-1] + 1]),
                        ("extra-point", distinct + [distinct[-1] + 2]), ("prefix", distinct[:-1]),
                        ("extra-interior-point", distinct[:1] + [distinct[0] + 1] + distinct[1:]),
                        ("extra-point-in-front", [distinct[0] - 2] + distinct),
                        ("first-point-moved", [distinct[0] - 1] + distinct[1:])]
            if len(distinct) >= 3:
                variants += [("interior-point-missing", distinct[:1] + distinct[2:]),
                             ("interior-point-moved", distinct[:1] + [distinct[1] + 1] + distinct[2:])]
            for label, gv in variants:
                g = w.mk_grid([Sc(x) for x in gv])
                if g.kind != "val":
                    continue
                o2 = w.run(lambda: w.I.construct(c2, [box(Vec(list(knots))), box(g.v)]), "BSplineGenerator(knots,grid)")
                cs.expect(f2, "BSplineGenerator(knots, grid) accepts exactly a grid equal to the distinct knots",
                          dict(case, grid=label), o2, (o2.kind == "val") if label == "matching" else o2.throws_lib(),
                          "a generator" if label == "matching" else "throws BSplineException")
            for p in orders:
                fg = w.method(GEN, "generateBSplines", 0, pred=lambda d, p=p: ("Spline<%s, %d>" % (w.T, p)) in
                              d["rtype"], required=False)
                if fg is None:
                    continue
                del w.I.divzero[:]
                o3 = w.call(fg, gen, [])
                dz = list(w.I.divzero)
                if dz and dz[0] is not None:
                    site = w.free(dz[0][1], lambda f, q=dz[0][2]: f.qn == q, required=False) or fg
                    cs.expect(site, "no division by an exactly-zero value on valid input (an exact field type has no "
                                    "infinity: the zero-width guards must precede the division)",
                              dict(case, order=p, line=dz[0][3]), None, False, "every division has a non-zero divisor")
                else:
                    cs.expect(fg, "no division by an exactly-zero value on valid input (an exact field type has no "
                                  "infinity: the zero-width guards must precede the division)", dict(case, order=p), None,
                              True, "every division has a non-zero divisor")
                enough = L >= p + 1
                if not enough:
                    ok = o3.throws_lib()
                    want = "throws BSplineException"
                else:
                    want = "%d functions, each a valid spline on the generator's grid" % (L - p - 1)
                    ok = o3.kind == "val" and isinstance(val(o3.v), Vec) and len(val(o3.v).items) == L - p - 1
                    if ok:
                        for sp in val(o3.v).items:
                            okv, _ = valid_spline(w, sp, len(distinct))
                            ok = ok and okv
                cs.expect(fg, "generateBSplines<p> needs >= p+1 knots and returns m-p-1 valid splines",
                          dict(case, order=p), o3, ok, want)
    return cs.flush()


FIRST, LAST = 0, 1


def _node(w, which):
    return which  # enumerators are their integer values in the evaluator


def interpolate_suite(chk, w, rule, nmax, orders=(1, 2, 3), ns=None, fixed=True):
    cs = Cases(chk, rule, w)
    w.I.allow_const_scaling = True
    brec = w.I.find_record("bspline::interpolation::Boundary<%s>" % w.T)
    if brec is None:
        raise AnalysisBroken("anchor vanished: Boundary<T> not instantiated")
    for order in orders:
        f = w.free("bspline::interpolation::interpolate",
                   lambda f: ("Spline<%s, %d>" % (w.T, order)) in f.decl["rtype"] and "StubSolver<" in f.qn and
                   "StubSolverD" not in f.qn, required=False)
        if f is None:
            raise AnalysisBroken("anchor vanished: interpolate<T,%d,StubSolver> not instantiated" % order)

        def boundaries(spec):
            items = []
            for node, deriv in spec:
                o = Obj(brec["qn"], brec)
                o.fields = {"node": _node(w, node), "derivative": deriv, "value": Sc.atom(("bv",))}
                items.append(o)
            return Arr(items)

        for n in _ns(2, nmax, ns):
            grid = w.need_grid(w.grid_values(n))
            for (s, e) in windows(n):
                sup = w.need_support(grid, s, e)
                size = e - s
                for ylen in sorted({0, 1, size - 1, size, size + 1} - {-1}):
                    ys = Vec([Sc.atom(("y", i)) for i in range(ylen)])
                    derivs = [0, 1, order, order + 1, (1 << 64) - 1]
                    specs = []
                    if order == 1:
                        specs = [()]
                    else:
                        base = [(FIRST if i % 2 == 0 else LAST, i // 2 + 1) for i in range(order - 1)]
                        specs.append(tuple(base))
                        for pos in range(order - 1):
                            for node in (FIRST, LAST):
                                for dv in derivs:
                                    b2 = list(base)
                                    b2[pos] = (node, dv)
                                    specs.append(tuple(b2))
                    for spec in specs:
                        good = ylen == size and size >= 2 and all(1 <= dv <= order for _, dv in spec)
                        o = w.call(f, None, [box(sup), box(ys), box(boundaries(spec))])
                        ok = o.throws_lib() if not good else (o.kind == "val" and isinstance(val(o.v), Obj) and
                                                               valid_spline(w, val(o.v), n)[0])
                        cs.expect(f, "interpolate accepts exactly: equally many (>= 2) abscissae and ordinates and "
                                     "boundary derivative orders in [1, order] at both nodes",
                                  dict(order=order, n=n, window=(s, e), ordinates=ylen,
                                       boundaries=[("FIRST" if a == FIRST else "LAST", ("2^64-1" if b > 99 else b))
                                                   for a, b in spec]), o, ok,
                                  "a valid spline on the given support" if good else "throws BSplineException")
    # default boundary table: derivatives 1,1,2,2,... alternating FIRST / LAST, value zero
    if fixed:
        for order in (1, 2, 3, 4):
            fd = w.free("bspline::interpolation::internal::defaultBoundaries",
                        lambda f: ("Boundary<%s>, %d>" % (w.T, order - 1)) in f.decl["rtype"], required=False)
            if fd is None:
                continue
            o = w.call(fd, None, [])
            want = [(FIRST if i % 2 == 0 else LAST, i // 2 + 1) for i in range(order - 1)]
            ok = o.kind == "val" and isinstance(val(o.v), Vec) and len(val(o.v).items) == order - 1
            if ok:
                for b, (node, dv) in zip(val(o.v).items, want):
                    nd = b.fields.get("node")
                    ok = ok and nd == node and b.fields.get("derivative") == dv and \
                        isinstance(b.fields.get("value"), Sc) and b.fields["value"].v == 0
            cs.expect(fd, "default boundaries: lowest derivatives set to zero, alternating first / last node",
                      dict(order=order), o, ok, str([("FIRST" if a == FIRST else "LAST", b) for a, b in want]))
    return cs.flush()


def generator_support_suite(chk, w, rule, maxlen, orders=(0, 1, 2, 3), ns=None, fixed=True):
    """Structural clauses of C01: count m-p-1; the i-th function is supported exactly on the knot span
    [t_i, t_{i+p+1}] (it may store zeros elsewhere; it must not vanish identically on a positive-width part of the
    span); the result does not depend on the construction route (knots alone / knots + equal grid object)."""
    cs = Cases(chk, rule, w)
    GEN = "bspline::BSplineGenerator<%s>" % w.T
    c1 = w.ctor(GEN, lambda d: len(d["params"]) == 1 and d["params"][0]["type"].startswith("std::vector<"), "knots")
    c2 = w.ctor(GEN, lambda d: len(d["params"]) == 2 and d["params"][0]["type"].startswith("std::vector<"),
                "knots, grid")
    w.I.allow_const_scaling = True
    values = [0, 2, 4, 6, 8]
    for L in _ns(2, maxlen, ns):
        # all non-decreasing sequences (multiplicity patterns) of length L over at most 5 distinct values
        for seq in itertools.combinations_with_replacement(values, L):
            distinct = sorted(set(seq))
            if len(distinct) < 2 or distinct != values[:len(distinct)]:
                continue   # canonical representatives: the distinct values are 0,2,4,... (order type of the knots)
            knots = [Sc(x) for x in seq]
            o = w.run(lambda: w.I.construct(c1, [box(Vec(list(knots)))]), "BSplineGenerator(knots)")
            if o.kind != "val":
                continue   # acceptance is C11's business
            gen = o.v
            g2 = w.mk_grid([Sc(x) for x in distinct])
            gen2 = w.run(lambda: w.I.construct(c2, [box(Vec(list(knots))), box(g2.v)]),
                         "BSplineGenerator(knots, grid)") if g2.kind == "val" else None
            idx = {v_: i for i, v_ in enumerate(distinct)}
            for p in orders:
                if L < p + 1:   # m = p+1 knots: an empty basis, not a refusal
                    continue
                fg = w.method(GEN, "generateBSplines", 0, pred=lambda d, p=p: ("Spline<%s, %d>" % (w.T, p)) in
                              d["rtype"], required=False)
                if fg is None:
                    continue
                case = dict(knots=list(seq), order=p)
                r = w.call(fg, gen, [])
                ok = r.kind == "val" and isinstance(val(r.v), Vec) and len(val(r.v).items) == L - p - 1
                cs.expect(fg, "generateBSplines<p> returns exactly m-p-1 functions", case, r, ok, str(L - p - 1))
                if not ok:
                    continue
                fns = val(r.v).items
                for i, sp in enumerate(fns):
                    lo, hi = idx[seq[i]], idx[seq[i + p + 1]]      # grid indices of t_i and t_{i+p+1}
                    view = spline_view(w, sp)
                    okv, why = valid_spline(w, sp, len(distinct))
                    good = okv and view is not None
                    if good:
                        (s0, e0), table, _, _ = view
                        for I in range(len(distinct) - 1):
                            arr = table.get(I)
                            inside = lo <= I < hi
                            if not inside and arr is not None and not all(isinstance(x, Sc) and x.v == 0 for x in arr):
                                good, why = False, "function %d does not vanish on interval %d outside its knot span " \
                                                   "[%d,%d]" % (i, I, lo, hi)
                            if inside and (arr is None or all(isinstance(x, Sc) and x.v == 0 for x in arr)):
                                good, why = False, "function %d vanishes identically on interval %d inside its knot " \
                                                   "span [%d,%d]" % (i, I, lo, hi)
                    if good and any(isinstance(x, Sc) and DEFAULT_ATOM in x.deps for arr in view[1].values() for x in arr):
                        good, why = False, "a coefficient of function %d depends on the value of a default-constructed " \
                                           "T (only static_cast<T>(0) is a documented zero)" % i
                    cs.expect(fg, "the i-th function is supported exactly on the knot span [t_i, t_{i+p+1}] (grid "
                                  "intervals of positive width; zero elsewhere; interval-free if the span has no width)",
                              dict(case, i=i), r, good, "support = grid window [%d,%d] (%s)" % (lo, hi, why))
                if gen2 is not None and gen2.kind == "val":
                    r2 = w.call(fg, gen2.v, [])
                    same = r2.kind == "val" and isinstance(val(r2.v), Vec) and len(val(r2.v).items) == len(fns)
                    if same:
                        for a_, b_ in zip(fns, val(r2.v).items):
                            va, vb = spline_view(w, a_), spline_view(w, b_)
                            if va is None or vb is None or va[0] != vb[0] or va[2] != vb[2]:
                                same = False
                                break
                            for I, arr in va[1].items():
                                brr = vb[1].get(I)
                                if brr is None or [x.v for x in arr] != [x.v for x in brr]:
                                    same = False
                    cs.expect(fg, "both construction routes (knots alone / knots plus an equal grid object) give the "
                                  "same functions", case, r2, same, "identical supports and coefficients")
    return cs.flush()


# ------------------------------------------------------------------------------------------------
# C12 (structural clause): the linear system interpolate() assembles IS the system of the promised conditions
# ------------------------------------------------------------------------------------------------
def _rref(rows):
    """Reduced row echelon form over the rationals (rows: lists of Fraction); zero rows dropped."""
    rows = [list(r) for r in rows]
    out, col, ncol = [], 0, len(rows[0]) if rows else 0
    r = 0
    while r < len(rows) and col < ncol:
        piv = next((i for i in range(r, len(rows)) if rows[i][col] != 0), None)
        if piv is None:
            col += 1
            continue
        rows[r], rows[piv] = rows[piv], rows[r]
        pv = rows[r][col]
        rows[r] = [x / pv for x in rows[r]]
        for i in range(len(rows)):
            if i != r and rows[i][col] != 0:
                f = rows[i][col]
                rows[i] = [a - f * b for a, b in zip(rows[i], rows[r])]
        r += 1
        col += 1
    return [tuple(x) for x in rows[:r]]


def _in_rowspace(basis_rref, row):
    return len(_rref([list(r) for r in basis_rref] + [list(row)])) == len(basis_rref)


def interp_system_suite(chk, w, rule, nmax=4, orders=(1, 2, 3), ns=None, fixed=True, spacings=(1, 2, 3, 5, 7)):
    from fractions import Fraction as Fr
    import math
    from . import interp as _ip
    cs = Cases(chk, rule, w)
    w.I.allow_const_scaling = True
    brec = w.I.find_record("bspline::interpolation::Boundary<%s>" % w.T)
    if brec is None:
        raise AnalysisBroken("anchor vanished: Boundary<T> not instantiated")
    for order in orders:
        f = w.free("bspline::interpolation::interpolate",
                   lambda f: ("Spline<%s, %d>" % (w.T, order)) in f.decl["rtype"] and "RecSolver<" in f.qn,
                   required=False)
        if f is None:
            raise AnalysisBroken("anchor vanished: interpolate<T,%d,RecSolver> not instantiated" % order)
        NC = order + 1
        base = [(FIRST if i % 2 == 0 else LAST, i // 2 + 1) for i in range(order - 1)]
        full = [tuple(c) for c in itertools.product([(nd, dv) for nd in (FIRST, LAST) for dv in range(1, order + 1)],
                                                    repeat=order - 1)]
        for m in _ns(2, nmax, ns):
            sp_sets = list(itertools.product(spacings[:order + 1], repeat=m - 1))
            if len(sp_sets) > 40:
                # every spacing value at every position, plus a spread of mixed tuples
                sp_sets = [t for i, t in enumerate(sp_sets) if i % max(1, len(sp_sets) // 40) == 0 or len(set(t)) == 1]
            for si, spc in enumerate(sp_sets):
                for lead in ((0, 1) if si % 5 == 0 else (0,)):   # the support as a window of a larger grid
                    xs = [Fr(0)]
                    for h in ([4] * lead) + list(spc) + ([6] * lead):
                        xs.append(xs[-1] + h)
                    pts = [Sc(v, frozenset([("grid", i)])) for i, v in enumerate(xs)]
                    grid = w.need_grid(pts)
                    sup = w.need_support(grid, lead, lead + m)
                    node = xs[lead:lead + m]
                    specs = [tuple(base)] + ([b for i, b in enumerate(full) if b != tuple(base) and
                                              (len(full) <= 40 or i % (len(full) // 40) == 0)] if si < 3 else [])
                    for spec in specs:
                        items = []
                        for j, (nd, dv) in enumerate(spec):
                            o_ = Obj(brec["qn"], brec)
                            o_.fields = {"node": _node(w, nd), "derivative": dv, "value": Sc.atom(("bv", j))}
                            items.append(o_)
                        ys = Vec([Sc.atom(("y", k)) for k in range(m)])
                        del w.I.rec_solvers[:]
                        ncmp = _ip.N_SC_CMP[0]
                        o = w.call(f, None, [box(sup), box(ys), box(Arr(items))])
                        ncmp = _ip.N_SC_CMP[0] - ncmp
                        case = dict(order=order, nodes=m, spacings=list(spc), window_offset=lead,
                                    boundaries=[("FIRST" if a == FIRST else "LAST", b) for a, b in spec])
                        ok, why = _system_ok(w, o, order, m, node, spec, ncmp)
                        cs.expect(f, "the assembled linear system is equivalent to: the piece of every interval takes the "
                                     "ordinates at both of its nodes; derivatives 1..order-1 agree at every interior node; "
                                     "every boundary condition holds; and the result is the solver's solution", case, o, ok,
                                  "(%s)" % why)
    return cs.flush()


def _system_ok(w, o, order, m, node, spec, ncmp):
    from fractions import Fraction as Fr
    import math
    NC = order + 1
    size = NC * (m - 1)
    if o.kind != "val" or not isinstance(val(o.v), Obj):
        return False, repr(o)
    if not w.I.rec_solvers:
        return False, "no solver was constructed"
    if len(w.I.rec_solvers) != 1:
        return False, "%d solvers were constructed" % len(w.I.rec_solvers)
    mdl = w.I.rec_solvers[-1]
    if mdl.n != size:
        return False, "the system has %d unknowns, %d = (order+1)*(intervals) are needed" % (mdl.n, size)
    # which unknown is which coefficient: read off the result
    v = spline_view(w, val(o.v))
    if v is None:
        return False, "result not observable"
    (s_, e_), table, ncoef, _sup = v
    colof = {}
    for I in range(m - 1):
        arr = table.get(s_ + I)
        if arr is None or len(arr) != NC:
            return False, "result has no piece for interval %d" % I
        for p, x in enumerate(arr):
            fm = x.form() if isinstance(x, Sc) else None
            if not fm or len(fm) != 1:
                return False, "coefficient %d of interval %d is not one of the solver's unknowns" % (p, I)
            (atom, q), = fm.items()
            if atom is None or atom[0] != "u" or q != 1:
                return False, "coefficient %d of interval %d is %s" % (p, I, fm)
            colof[(I, p)] = atom[1]
    if sorted(colof.values()) != list(range(size)):
        return False, "the result does not use every unknown exactly once"
    atoms = [("y", k) for k in range(m)] + [("bv", j) for j in range(len(spec))]
    aidx = {a: size + i for i, a in enumerate(atoms)}
    width = size + len(atoms)
    # actual augmented matrix, columns reordered to (interval, power)
    pos = {col: I * NC + p for (I, p), col in colof.items()}
    rows = {}
    for (i, j), x in mdl.M.items():
        if not isinstance(x, Sc) or x.v is None or x.v == NAN:
            return False, "matrix entry (%d,%d) is %r" % (i, j, x)
        rows.setdefault(i, [Fr(0)] * width)[pos[j]] = Fr(x.v)
    for i, x in mdl.b.items():
        fm = x.form() if isinstance(x, Sc) else None
        if fm is None and isinstance(x, Sc) and x.v is not None and x.v != NAN and not x.deps:
            fm = {None: Fr(x.v)}
        if fm is None:
            return False, "right-hand side %d is %r" % (i, x)
        r = rows.setdefault(i, [Fr(0)] * width)
        for a, q in fm.items():
            if a is None:
                if q != 0:
                    return False, "right-hand side %d has the constant part %s" % (i, q)
                continue
            if a not in aidx:
                return False, "right-hand side %d depends on %s" % (i, a)
            r[aidx[a]] = -Fr(q)     # row: sum M c - b = 0
    actual = _rref(list(rows.values())) if rows else []
    # expected conditions
    h = [(node[I + 1] - node[I]) / 2 for I in range(m - 1)]
    fr = lambda p, d: Fr(math.factorial(p), math.factorial(p - d))
    exp = []

    def row(desc):
        r = [Fr(0)] * width
        exp.append((desc, r))
        return r
    for I in range(m - 1):
        for side, k, t in (("left", I, -h[I]), ("right", I + 1, h[I])):
            r = row("piece %d takes y[%d] at its %s node" % (I, k, side))
            for p in range(NC):
                r[I * NC + p] = t ** p
            r[aidx[("y", k)]] = Fr(-1)
    for k in range(1, m - 1):
        for d in range(1, order):
            r = row("derivative %d is continuous at interior node %d" % (d, k))
            for p in range(d, NC):
                r[(k - 1) * NC + p] = fr(p, d) * h[k - 1] ** (p - d)
                r[k * NC + p] = -fr(p, d) * (-h[k]) ** (p - d)
    for j, (nd, dv) in enumerate(spec):
        first = nd == FIRST
        I, t = (0, -h[0]) if first else (m - 2, h[m - 2])
        r = row("boundary condition %d: derivative %d at the %s node" % (j, dv, "first" if first else "last"))
        for p in range(dv, NC):
            r[I * NC + p] = fr(p, dv) * t ** (p - dv)
        r[aidx[("bv", j)]] = Fr(-1)
    expected = _rref([r for _, r in exp])
    if actual == expected:
        if ncmp:
            raise AnalysisBroken("interpolate compares scalar values (%d comparisons) while assembling: the entries are not "
                                 "polynomials of the spacings, the degree+1-widths argument does not apply" % ncmp)
        return True, ""
    for desc, r in exp:
        if not _in_rowspace(actual, r):
            return False, "not implied by the assembled system: %s" % desc
    return False, "the assembled system contains a condition that was not asked for (%d independent rows, %d expected)" % (
        len(actual), len(expected))


# ------------------------------------------------------------------------------------------------
# C01: the generated functions ARE the Cox-de Boor B-splines - induction over the order
# ------------------------------------------------------------------------------------------------
def _cdb_reference(knots, p):
    """Cox-de Boor B-splines of order p on the knot vector (exact rationals): list over i of {grid interval: coefficients
    about that interval's midpoint}. Convention 0/0 = 0."""
    from fractions import Fraction as Fr
    grid = sorted(set(knots))
    nint = len(grid) - 1

    def mul_lin(poly, c0, c1):   # (c0 + c1 (x - xm)) * poly
        out = [Fr(0)] * (len(poly) + 1)
        for q, a in enumerate(poly):
            out[q] += c0 * a
            out[q + 1] += c1 * a
        return out
    level = []
    for i in range(len(knots) - 1):
        f = {}
        if knots[i] < knots[i + 1]:
            f[grid.index(knots[i])] = [Fr(1)]
        level.append(f)
    for k in range(1, p + 1):
        nxt = []
        for i in range(len(knots) - k - 1):
            f = {}
            for I in range(nint):
                xm = (grid[I] + grid[I + 1]) / 2
                acc = [Fr(0)] * (k + 1)
                d1 = knots[i + k] - knots[i]
                if d1 > 0 and I in level[i]:
                    t = mul_lin(level[i][I], (xm - knots[i]) / d1, Fr(1) / d1)
                    acc = [a + b for a, b in zip(acc, t + [Fr(0)] * (k + 1 - len(t)))]
                d2 = knots[i + k + 1] - knots[i + 1]
                if d2 > 0 and I in level[i + 1]:
                    t = mul_lin(level[i + 1][I], (knots[i + k + 1] - xm) / d2, Fr(-1) / d2)
                    acc = [a + b for a, b in zip(acc, t + [Fr(0)] * (k + 1 - len(t)))]
                if (d1 > 0 and I in level[i]) or (d2 > 0 and I in level[i + 1]):
                    f[I] = acc
            nxt.append(f)
        level = nxt
    return level


def coxdeboor_suite(chk, w, rule, maxlen=6, orders=(0, 1, 2, 3), ns=None, fixed=True, ks=(2, 3, 4)):
    """(1) base: the order-0 functions are the indicator functions of the knot intervals (coefficient exactly 1);
       (2) step, as a LINEAR MAP on opaque inputs: applyRecursionRelation<k>(i, s, s') is exactly
           (x - t_i)/(t_{i+k-1} - t_i) s + (t_{i+k} - x)/(t_{i+k} - t_{i+1}) s'   (terms with a zero denominator dropped);
       (3) wiring: generateBSplines<p>()[i] = step(i, lower[i], lower[i+1]) - checked as exact equality of the generated
           functions with the Cox-de Boor reference on every multiplicity pattern and two spacings (the wiring is integer
           index code; with (1) and (2) this equality is the induction's conclusion on the representatives)."""
    from fractions import Fraction as Fr
    cs = Cases(chk, rule, w)
    GEN = "bspline::BSplineGenerator<%s>" % w.T
    c1 = w.ctor(GEN, lambda d: len(d["params"]) == 1 and d["params"][0]["type"].startswith("std::vector<"), "knots")
    w.I.allow_const_scaling = True
    maps = [[0, 2, 4, 6, 8, 10], [0, 1, 4, 6, 11, 13]]
    step_fn = {}
    for k in ks:
        step_fn[k] = w.method(GEN, "applyRecursionRelation", 3, required=False,
                              pred=lambda d, k=k: ("Spline<%s, %d>" % (w.T, k - 2)) in d["params"][1]["type"])
    have_step = all(v is not None for v in step_fn.values())
    for L in _ns(2, maxlen, ns):
        for pat in itertools.combinations_with_replacement(range(5), L):
            distinct = sorted(set(pat))
            if len(distinct) < 2 or distinct != list(range(len(distinct))):
                continue
            for vm in maps:
                seq = [Fr(vm[j]) for j in pat]
                grid = sorted(set(seq))
                knots = [Sc(x) for x in seq]
                o = w.run(lambda: w.I.construct(c1, [box(Vec(list(knots)))]), "BSplineGenerator(knots)")
                if o.kind != "val":
                    continue
                gen = o.v
                gridobj = w.mcall(gen, "getGrid")
                if gridobj.kind != "val":
                    continue
                gi = {v_: j for j, v_ in enumerate(grid)}
                # (1) + (3): generated functions equal the reference exactly
                for p in orders:
                    if L < p + 2:
                        continue
                    fg = w.method(GEN, "generateBSplines", 0, pred=lambda d, p=p: ("Spline<%s, %d>" % (w.T, p)) in
                                  d["rtype"], required=False)
                    if fg is None:
                        continue
                    r = w.call(fg, gen, [])
                    if r.kind != "val" or not isinstance(val(r.v), Vec):
                        continue   # count / refusal: structural suite and C11
                    ref = _cdb_reference(seq, p)
                    for i, sp in enumerate(val(r.v).items[:len(ref)]):
                        view = spline_view(w, sp)
                        ok, why = view is not None, "not observable"
                        for I in (range(len(grid) - 1) if ok else ()):
                            arr = view[1].get(I)
                            want = ref[i].get(I)
                            got = None if arr is None else [x.v if isinstance(x, Sc) else None for x in arr]
                            if want is None:
                                if got is not None and any(v_ != 0 for v_ in got):
                                    ok, why = False, "function %d is not zero on interval %d" % (i, I)
                            elif got is None or [Fr(v_) if v_ is not None and v_ != NAN else None for v_ in got] != want:
                                ok, why = False, "function %d on interval %d has coefficients %s, Cox-de Boor gives %s" % (
                                    i, I, None if got is None else [str(v_) for v_ in got], [str(v_) for v_ in want])
                            if not ok:
                                break
                        cs.expect(fg, ("the order-0 functions are the indicator functions of the knot intervals" if p == 0 else
                                       "the generated functions equal the Cox-de Boor B-splines of the knot vector (exact "
                                       "coefficients about the interval midpoints)"),
                                  dict(knots=[str(x) for x in seq], order=p, i=i), r, ok, "(%s)" % why)
                # (2) the recursion step as a linear map on opaque lower-order splines
                if not have_step or vm is not maps[1] and L > 4:
                    continue
                for k in ks:
                    if L < k + 1:
                        continue
                    f = step_fn[k]
                    for i in range(L - k):
                        def span(a, b):
                            lo, hi = gi[seq[a]], gi[seq[b]]
                            return (lo, hi + 1) if hi > lo else (0, 0)
                        wa, wb = span(i, i + k - 1), span(i + 1, i + k)
                        sa = w.spline_on("a", k - 2, gridobj.v, *wa)
                        sb = w.spline_on("b", k - 2, gridobj.v, *wb)
                        o2 = w.call(f, gen, [i, box(sa), box(sb)])
                        ok, why = False, repr(o2)
                        if o2.kind == "val" and isinstance(val(o2.v), Obj):
                            view = spline_view(w, val(o2.v))
                            ok, why = view is not None, "not observable"
                            d1 = seq[i + k - 1] - seq[i]
                            d2 = seq[i + k] - seq[i + 1]
                            for I in (range(len(grid) - 1) if ok else ()):
                                xm = (grid[I] + grid[I + 1]) / 2
                                ina = wa[0] <= I and I + 1 < wa[1]
                                inb = wb[0] <= I and I + 1 < wb[1]
                                want = [dict() for _ in range(k)]
                                if d1 > 0 and ina:
                                    for q in range(k - 1):
                                        a_ = ("c", "a", I, q)
                                        want[q][a_] = want[q].get(a_, 0) + (xm - seq[i]) / d1
                                        want[q + 1][a_] = want[q + 1].get(a_, 0) + Fr(1) / d1
                                if d2 > 0 and inb:
                                    for q in range(k - 1):
                                        b_ = ("c", "b", I, q)
                                        want[q][b_] = want[q].get(b_, 0) + (seq[i + k] - xm) / d2
                                        want[q + 1][b_] = want[q + 1].get(b_, 0) - Fr(1) / d2
                                want = [{a_: v_ for a_, v_ in d_.items() if v_ != 0} for d_ in want]
                                arr = view[1].get(I)
                                got = [dict() for _ in range(k)] if arr is None else [
                                    ({a_: v_ for a_, v_ in (x.lin or {}).items() if v_ != 0 and a_ is not None}
                                     if isinstance(x, Sc) and x.lin is not None else None) for x in arr]
                                if got != want:
                                    ok, why = False, "interval %d: got %s, the recursion prescribes %s" % (I, got, want)
                                    break
                        cs.expect(f, "one recursion step is exactly (x - t_i)/(t_(i+k-1) - t_i) s + (t_(i+k) - x)/(t_(i+k) - t_(i+1)) s' "
                                     "as a linear map of the two lower-order splines (terms with a zero denominator dropped)",
                                  dict(knots=[str(x) for x in seq], k=k, i=i, s=wa, s2=wb), o2, ok, "(%s)" % str(why)[:300])
    if not have_step:
        cs.w.I.executed.add("(recursion step not found under the name applyRecursionRelation: only clauses (1) and (3))")
    return cs.flush()
