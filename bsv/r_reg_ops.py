"""R-REG suites for operators and forms (C04, C05, C06, C07, C17): the named cases of
drivers/cases.h are evaluated abstractly; the dependence structure of every result coefficient
is compared with the specification of the differential expression the case spells."""
from .facts import AnalysisBroken
from .interp import NAN, Arr, Iter, Obj, Sc, Vec, box, val
from .r_reg import Cases, World, windows
from .r_reg_spl import _expect_coeffs, snap, spline_view, valid_spline
from .r_reg_sup import same_window


EXTENDED_FROM = 9


def _ns(lo, hi, ns):
    full = range(lo, hi + 1)
    ext = [n for n in (ns or ()) if n > hi and n >= EXTENDED_FROM]   # threshold extension (r_reg.run_jobs), sparse windows
    return [n for n in full if ns is None or n in ns] + ext


# ------------------------------------------------------------------------------------------------
# specification language: an operator maps the dependence array of one interval to another
# ------------------------------------------------------------------------------------------------
E = frozenset()


def G(I):
    return frozenset([("grid", I), ("grid", I + 1)])


class Op:
    def apply(self, arr, I, ctx):
        raise NotImplementedError

    def mono(self, arr, I, ctx):
        """Term structure: array of sets of monomials (sorted tuples of opaque atoms; grid points are neutral)."""
        raise NotImplementedError

    def lin(self, arr, I, ctx):
        """Exact affine semantics on an array of affine forms ({atom: q}); None where the operator's coefficients
        depend on grid values or run-time scalars (then only the dependence structure is specified)."""
        return None


def _ladd(x, y, sgn=1):
    out = dict(x)
    for k, q in y.items():
        out[k] = out.get(k, 0) + sgn * q
    return out


def _lscale(x, c):
    return {k: q * c for k, q in x.items()}


def _mmul(ms, atom):
    return frozenset(tuple(sorted(m + (atom,))) for m in ms)


def _mprod(xs, ys):
    return frozenset(tuple(sorted(x + y)) for x in xs for y in ys)


class Id(Op):
    def apply(self, arr, I, ctx):
        return list(arr)

    def mono(self, arr, I, ctx):
        return list(arr)

    def lin(self, arr, I, ctx):
        return list(arr)


class X(Op):
    def __init__(self, n):
        self.n = n

    def apply(self, arr, I, ctx):
        n = self.n
        out = []
        for p in range(len(arr) + n):
            d = set()
            for i in range(len(arr)):
                j = p - i
                if 0 <= j <= n:
                    d |= arr[i]
                    if j < n:
                        d |= G(I)
            out.append(frozenset(d))
        return out

    def mono(self, arr, I, ctx):
        n = self.n
        out = []
        for p in range(len(arr) + n):
            m = set()
            for i in range(len(arr)):
                if 0 <= p - i <= n:
                    m |= arr[i]
            out.append(frozenset(m))
        return out


    def lin(self, arr, I, ctx):
        """value mode (ctx['xm'] = exact midpoint of interval I): re-expansion of x^n p(x) about the midpoint"""
        import math
        xm = ctx.get("xm")
        if xm is None:
            return None
        n = self.n
        out = []
        for q in range(len(arr) + n):
            acc = {}
            for k in range(n + 1):
                if 0 <= q - k < len(arr):
                    acc = _ladd(acc, _lscale(arr[q - k], math.comb(n, k) * xm ** (n - k)))
            out.append(acc)
        return out


class Dn(Op):
    def __init__(self, n):
        self.n = n

    def apply(self, arr, I, ctx):
        if self.n > len(arr) - 1:
            return [E]
        return [arr[i + self.n] for i in range(len(arr) - self.n)]

    def mono(self, arr, I, ctx):
        if self.n > len(arr) - 1:
            return [frozenset()]
        return [arr[i + self.n] for i in range(len(arr) - self.n)]

    def lin(self, arr, I, ctx):
        import math
        from fractions import Fraction
        n = self.n
        if n > len(arr) - 1:
            return [{}]
        return [_lscale(arr[i + n], Fraction(math.factorial(i + n), math.factorial(i))) for i in range(len(arr) - n)]


class Mul(Op):
    """(A*B)s = A(Bs)"""

    def __init__(self, a, b):
        self.a, self.b = a, b

    def apply(self, arr, I, ctx):
        return self.a.apply(self.b.apply(arr, I, ctx), I, ctx)

    def mono(self, arr, I, ctx):
        return self.a.mono(self.b.mono(arr, I, ctx), I, ctx)

    def lin(self, arr, I, ctx):
        inner = self.b.lin(arr, I, ctx)
        return None if inner is None else self.a.lin(inner, I, ctx)


class Add(Op):
    sign = 1

    def __init__(self, a, b):
        self.a, self.b = a, b

    def apply(self, arr, I, ctx):
        x, y = self.a.apply(arr, I, ctx), self.b.apply(arr, I, ctx)
        return [(x[p] if p < len(x) else E) | (y[p] if p < len(y) else E) for p in range(max(len(x), len(y)))]

    def mono(self, arr, I, ctx):
        x, y = self.a.mono(arr, I, ctx), self.b.mono(arr, I, ctx)
        return [(x[p] if p < len(x) else frozenset()) | (y[p] if p < len(y) else frozenset())
                for p in range(max(len(x), len(y)))]

    def lin(self, arr, I, ctx):
        x, y = self.a.lin(arr, I, ctx), self.b.lin(arr, I, ctx)
        if x is None or y is None:
            return None
        return [_ladd(x[p] if p < len(x) else {}, y[p] if p < len(y) else {}, self.sign)
                for p in range(max(len(x), len(y)))]


class Sub(Add):  # same dependence structure, opposite sign of the second term
    sign = -1


class Scal(Op):
    """multiplication by a scalar: atom ('k',) for run-time scalars, no dependence for literals"""

    def __init__(self, a, atom=True, value=None, div=False):
        self.a, self.atom, self.value, self.div = a, atom, value, div

    def _atom(self):
        return ("k",) if self.atom is True else self.atom

    def apply(self, arr, I, ctx):
        k = frozenset([self._atom()]) if self.atom else E
        return [d | k for d in self.a.apply(arr, I, ctx)]

    def mono(self, arr, I, ctx):
        inner = self.a.mono(arr, I, ctx)
        if not self.atom:
            return inner
        return [_mmul(m, self._atom()) for m in inner]

    def lin(self, arr, I, ctx):
        if self.atom:
            # value mode: the run-time scalar has an exact value (per atom when an expression has several scalars)
            k = (ctx.get("kvals") or {}).get(self._atom(), ctx.get("k"))
            if k is None:
                return None
            c = 1 / k if self.div else k
        elif self.value is None:
            return None
        else:
            c = self.value
        inner = self.a.lin(arr, I, ctx)
        return None if inner is None else [_lscale(x, c) for x in inner]


def Const(atom=True, value=None):
    return Scal(Id(), atom, value)


class Fac(Op):
    """multiplication by the spline factor ctx['v'] = (name, order, window): zero outside its support"""

    def apply(self, arr, I, ctx):
        name, order, (s, e) = ctx["v"]
        size = len(arr) + order
        if not (s <= I and I + 1 < e):
            return [E] * size
        out = []
        for p in range(size):
            d = set()
            for i in range(len(arr)):
                j = p - i
                if 0 <= j <= order:
                    d |= arr[i]
                    d.add(("c", name, I, j))
            out.append(frozenset(d))
        return out

    def mono(self, arr, I, ctx):
        name, order, (s, e) = ctx["v"]
        size = len(arr) + order
        if not (s <= I and I + 1 < e):
            return [frozenset()] * size
        out = []
        for p in range(size):
            m = set()
            for i in range(len(arr)):
                j = p - i
                if 0 <= j <= order:
                    m |= _mmul(arr[i], ("c", name, I, j))
            out.append(frozenset(m))
        return out

    def lin(self, arr, I, ctx):
        """value mode (ctx['vval'] = {interval: exact coefficients of the factor}): Cauchy product with the factor's piece"""
        vv = ctx.get("vval")
        if vv is None:
            return None
        name, order, (s_, e_) = ctx["v"]
        size = len(arr) + order
        piece = vv.get(I) if (s_ <= I and I + 1 < e_) else None
        out = []
        for p in range(size):
            acc = {}
            if piece is not None:
                for i in range(len(arr)):
                    j = p - i
                    if 0 <= j <= order and piece[j] != 0:
                        acc = _ladd(acc, _lscale(arr[i], piece[j]))
            out.append(acc)
        return out


def _in_mono(name, I, order):
    return [frozenset([(("c", name, I, j),)]) for j in range(order + 1)]


from fractions import Fraction as _Fr

OP_CASES = {
    # name: (spec, needs scalar c, factor order or None, properties it serves)
    "op_id": (Id(), False, None),
    "op_x0": (X(0), False, None),
    "op_x1": (X(1), False, None),
    "op_x2": (X(2), False, None),
    "op_x3": (X(3), False, None),
    "op_d0": (Dn(0), False, None),
    "op_d1": (Dn(1), False, None),
    "op_d2": (Dn(2), False, None),
    "op_d3": (Dn(3), False, None),
    "op_d4": (Dn(4), False, None),
    "op_x1d1": (Mul(X(1), Dn(1)), False, None),
    "op_d1x1": (Mul(Dn(1), X(1)), False, None),
    "op_comm": (Sub(Mul(Dn(1), X(1)), Mul(X(1), Dn(1))), False, None),
    "op_sum": (Add(X(2), Dn(1)), False, None),
    "op_sum2": (Add(Dn(1), X(2)), False, None),
    "op_dif": (Sub(Dn(2), X(1)), False, None),
    "op_dif2": (Sub(X(1), Dn(2)), False, None),
    "op_prodsum": (Mul(Add(X(1), Dn(1)), Sub(X(2), Id())), False, None),
    "op_cx": (Scal(X(1)), True, None),
    "op_xc": (Scal(X(1)), True, None),
    "op_xdivc": (Scal(X(1), div=True), True, None),
    "op_xplusc": (Add(X(1), Const()), True, None),
    "op_cplusx": (Add(Const(), X(1)), True, None),
    "op_xminusc": (Sub(X(1), Const()), True, None),
    "op_cminusx": (Sub(Const(), X(1)), True, None),
    "op_neg": (Scal(X(1), False, _Fr(-1)), False, None),
    "op_int2d": (Scal(Dn(1), False, _Fr(2)), False, None),
    "op_ddiv2": (Scal(Dn(1), False, _Fr(1, 2)), False, None),
    "op_dplus1": (Add(Dn(1), Const(False, _Fr(1))), False, None),
    "op_nested": (Sub(Scal(Scal(Add(Sub(Mul(X(2), Dn(1)), Dn(3)), Const())), div=True), Scal(X(1), False, _Fr(2))), True,
                  None),
    "op_negdiv": (Scal(Scal(X(1), div=True), False, _Fr(-1)), True, None),
    "op_negmul": (Scal(Scal(X(1)), False, _Fr(-1)), True, None),
    "op_divdiv": (Scal(Scal(X(1), div=True), div=True), True, None),
    "op_divsum": (Add(Scal(X(1), div=True), Dn(1)), True, None),
    "op_ddivprod": (Mul(Dn(1), Scal(X(2), div=True)), True, None),
    "op_intdiv": (Sub(Scal(X(1), False, _Fr(1, 4)), Dn(1)), False, None),
    "op_fac": (Fac(), False, 1),
    "op_fac0": (Fac(), False, 0),
    "op_facd": (Mul(Fac(), Dn(1)), False, 1),
    "op_dfac": (Mul(Dn(1), Fac()), False, 1),
    "op_facsum": (Add(Scal(Fac()), X(1)), True, 1),
}

BLAME = [  # case name prefix -> library function whose framing the case mostly exercises
    ("op_id", "bspline::operators::IdentityOperator::transform"),
    ("op_x", "bspline::operators::Position::transform"),
    ("op_d", "bspline::operators::Derivative::transform"),
    ("op_fac", "bspline::operators::SplineOperator::transform"),
    ("op_dfac", "bspline::operators::SplineOperator::transform"),
    ("op_c", "bspline::operators::ScalarMultiplication::transform"),
    ("op_neg", "bspline::operators::ScalarMultiplication::transform"),
    ("op_div", "bspline::operators::ScalarMultiplication::transform"),
    ("op_ddivprod", "bspline::operators::ScalarMultiplication::transform"),
    ("op_intdiv", "bspline::operators::ScalarMultiplication::transform"),
    ("op_int", "bspline::operators::ScalarMultiplication::transform"),
    ("op_sum", "bspline::operators::OperatorSum::transform"),
    ("op_dif", "bspline::operators::OperatorSum::transform"),
    ("op_comm", "bspline::operators::OperatorSum::transform"),
    ("op_nested", "bspline::operators::OperatorSum::transform"),
    ("op_prodsum", "bspline::operators::OperatorProduct::transform"),
    ("bf_", "bspline::integration::BilinearForm::evaluate"),
    ("lf_", "bspline::integration::LinearForm::evaluate"),
    ("quad", "bspline::integration::integrate"),
]


def blame(w, name, default):
    for pre, pqn in sorted(BLAME, key=lambda x: -len(x[0])):
        if name.startswith(pre):
            f = w.free(pqn, required=False)
            if f is not None:
                return f
    return default


PRIMITIVE = {"op_id", "op_x0", "op_x1", "op_x2", "op_x3", "op_d0", "op_d1", "op_d2", "op_d3", "op_d4"}


def _case_fn(w, name, A, extra=None):
    def pred(f):
        ps = f.decl["params"]
        if not ps or ("Spline<%s, %d>" % (w.T, A)) not in ps[0]["type"]:
            return False
        return extra(f) if extra else True
    f = w.free("vt_case::" + name, pred, required=False)
    if f is None:
        raise AnalysisBroken("case function vt_case::%s<%d> missing from drivers/cases.h instantiations" % (name, A))
    return f


def _in_arr(name, I, order):
    return [frozenset([("c", name, I, j)]) for j in range(order + 1)]


def operator_suite(chk, w, rule, nmax, orders=(0, 1, 2, 3), cases=None, ns=None, fixed=True):
    cs = Cases(chk, rule, w)
    # integer scalars of the operator algebra (2 * Dx<1>{}, A / 2) are literal-origin constants, not index
    # quantities: arithmetic with a compile-time constant operand is evaluated exactly
    w.I.allow_const_scaling = True
    w.I.int_arith_scopes = ("bspline::internal::",)  # faculty / binomial helpers: constant propagation
    names = sorted(cases or OP_CASES)
    for n in _ns(2, nmax, ns):
        grid = w.need_grid(w.grid_values(n))
        grid2 = w.need_grid(w.grid_values(n))
        for A in orders:
            for name in names:
                spec, need_c, vorder = OP_CASES[name]
                f = _case_fn(w, name, A)
                vwins = windows(n) if vorder is not None else [None]
                for wa in windows(n):
                    for wv in vwins:
                        a = w.spline_on("a", A, grid, *wa)
                        args = [box(a)]
                        ctx = {}
                        if vorder is not None:
                            vgrid = grid2 if (wa[0] + wv[1]) % 2 else grid   # equal points, distinct Grid object
                            v = w.spline_on("v", vorder, vgrid, *wv)
                            args.append(box(v))
                            ctx["v"] = ("v", vorder, wv)
                        if need_c:
                            args.append(box(Sc.atom(("k",))))
                        sa = snap(a)
                        o = w.call(f, None, args)
                        ina = lambda I: wa[0] <= I and I + 1 < wa[1]
                        out_order = len(spec.apply(_in_arr("a", 0, A), 0, dict(ctx, v=("v", vorder or 0, (0, n))))) - 1

                        def want(I, p):
                            if not ina(I):
                                return E
                            arr = spec.apply(_in_arr("a", I, A), I, ctx)
                            return arr[p] if p < len(arr) else E

                        def want_mono(I, p):
                            if not ina(I):
                                return frozenset()
                            arr = spec.mono(_in_mono("a", I, A), I, ctx)
                            return arr[p] if p < len(arr) else frozenset()

                        def want_lin(I, p):
                            if not ina(I):
                                return {}
                            arr = spec.lin([{("c", "a", I, j): _Fr(1)} for j in range(A + 1)], I, ctx)
                            if arr is None:
                                return None
                            return arr[p] if p < len(arr) else {}

                        ok, why = False, repr(o)
                        if o.kind == "val" and isinstance(val(o.v), Obj):
                            r = val(o.v)
                            ok, why = valid_spline(w, r, n)
                            if ok:
                                view = spline_view(w, r)
                                if not same_window(view[0], wa):   # also for point-like and empty operands
                                    ok, why = False, "result support %s differs from the operand's %s" % (view[0], wa)
                                else:
                                    ok, why = _expect_coeffs_exact(view, n, want, out_order, ina, want_lin, want_mono)
                        if ok and snap(a) != sa:
                            ok, why = False, "operand was modified"
                        case = dict(case=name, order=A, n=n, a=wa)
                        if wv is not None:
                            case["factor"] = wv
                        cs.expect(blame(w, name, f), "%s: every result coefficient depends on exactly the inputs the expression "
                                     "prescribes (own interval's coefficients, that interval's end points, the factor's "
                                     "piece of the same interval)" % name, case, o, ok, "(%s)" % why)
    return cs.flush()


def _fmt_mono(ms):
    return "{" + ", ".join("*".join("%s%s" % (a[1] if len(a) > 1 else a[0], list(a[2:])) for a in m) or "1"
                           for m in sorted(ms)[:6]) + ("...}" if len(ms) > 6 else "}")


def _expect_coeffs_exact(view, n, want, out_order, ina, want_lin=None, want_mono=None):
    (s, e), table, ncoef, _ = view
    for I in range(0, n - 1):
        arr = table.get(I)
        if arr is None:
            if ina(I):
                return False, "interval %d of the operand is missing from the result" % I
            continue
        if len(arr) != out_order + 1:
            return False, "result array has %d coefficients, specified %d" % (len(arr), out_order + 1)
        for p in range(out_order + 1):
            x = arr[p]
            if not isinstance(x, Sc):
                return False, "coefficient %d of interval %d is %r" % (p, I, x)
            wd = want(I, p)
            if x.deps != wd:
                return False, "coefficient of x^%d on interval %d depends on %s, specified %s" % (
                    p, I, sorted(x.deps)[:6], sorted(wd)[:6])
            if not wd and x.v != 0:
                return False, "coefficient of x^%d on interval %d should be exactly zero" % (p, I)
            if want_mono is not None and x.mono is not None:
                wm = want_mono(I, p)
                if x.mono != wm:
                    return False, "coefficient of x^%d on interval %d is a sum of the products %s, specified %s" % (
                        p, I, _fmt_mono(x.mono), _fmt_mono(wm))
            if want_lin is not None:
                wl = want_lin(I, p)
                got = x.form()
                if wl is not None and got is not None and got != {k: q for k, q in wl.items() if q != 0}:
                    from .r_reg_spl import _fmt_lin
                    return False, "coefficient of x^%d on interval %d is the combination %s, specified %s" % (
                        p, I, _fmt_lin(got), _fmt_lin(wl))
    return True, ""


# ------------------------------------------------------------------------------------------------
# forms
# ------------------------------------------------------------------------------------------------
BF_CASES = {
    # two operators of the SAME C++ type with different state (run-time scalars k / k2)
    "bf_aff": (Add(Dn(1), Const(("k",))), Add(Dn(1), Const(("k2",))), None),
    "bf_id": (Id(), Id(), None),
    "bf_x1d1": (X(1), Dn(1), None),
    "bf_d1": (Id(), Dn(1), None),
    "bf_x2": (X(2), Id(), None),
    "bf_fac": (Dn(1), Mul(Fac(), Dn(1)), 1),
}
LF_CASES = {
    "lf_id": (Id(), None),
    "lf_x1": (X(1), None),
    "lf_x1d1": (Mul(X(1), Dn(1)), None),
    "lf_d1": (Dn(1), None),
    "lf_fac": (Fac(), 1),
}


def _scalar_ok(o, want_deps, want_mono=None):
    if o.kind != "val" or not isinstance(val(o.v), Sc):
        return False, repr(o)
    x = val(o.v)
    if want_mono is not None and x.mono is not None and x.deps == want_deps and x.mono != want_mono:
        extra = sorted(x.mono - want_mono)[:3]
        miss = sorted(want_mono - x.mono)[:3]
        return False, "wrong products of inputs: unexpected %s, missing %s" % (_fmt_mono(extra), _fmt_mono(miss))
    if x.deps != want_deps:
        extra = sorted(x.deps - want_deps)[:5]
        miss = sorted(want_deps - x.deps)[:5]
        return False, "unexpected inputs %s, missing inputs %s" % (extra, miss)
    if not want_deps and x.v != 0:
        return False, "should be exactly zero"
    return True, ""


def _fmt_q(fm):
    return " + ".join("%s*q%s" % (v_, list(k_[1:]) if k_ else "") for k_, v_ in sorted(fm.items(), key=lambda kv: str(kv[0]))) or "0"


def bilinear_suite(chk, w, rule, nmax, order_pairs=((1, 1), (2, 1), (0, 3), (2, 2)), ns=None, fixed=True):
    cs = Cases(chk, rule, w)
    w.I.allow_const_scaling = True
    w.I.int_arith_scopes = ("bspline::internal::",)  # faculty / binomial helpers: constant propagation  # kernel loop counters are bounded by template constants
    for n in _ns(2, nmax, ns):
        grid = w.need_grid(w.grid_values(n))
        grid2 = w.need_grid(w.grid_values(n))
        for (A, B) in order_pairs:
            for name, (o1, o2, vorder) in sorted(BF_CASES.items()):
                f = _case_fn(w, name, A, lambda f: ("Spline<%s, %d>" % (w.T, B)) in f.decl["params"][1]["type"])
                vw = [x for x in windows(n) if x[1] - x[0] != 1][::2] if vorder is not None else [None]
                for wa in windows(n):
                    for wb in windows(n):
                        for wv in vw:
                            gb = grid2 if (wa[0] + wb[0]) % 2 else grid
                            a = w.spline_on("a", A, grid, *wa)
                            b = w.spline_on("b", B, gb, *wb)
                            args = [box(a), box(b)]
                            ctx = {}
                            if vorder is not None:
                                args.append(box(w.spline_on("v", vorder, grid, *wv)))
                                ctx["v"] = ("v", vorder, wv)
                            if name == "bf_aff":
                                args += [box(Sc.atom(("k",))), box(Sc.atom(("k2",)))]
                            same_obj = (A == B and wa == wb and (wa[0] + wa[1]) % 2 == 0)
                            if same_obj:
                                # the very same object as both arguments (a diagonal matrix element)
                                args[1] = args[0]   # the same lvalue: &a == &b holds
                                b = a
                            bname = "a" if same_obj else "b"
                            sa, sb = snap(a), snap(b)
                            o = w.call(f, None, args)
                            want = set()
                            wantm = set()
                            for I in range(n - 1):
                                if wa[0] <= I and I + 1 < wa[1] and wb[0] <= I and I + 1 < wb[1]:
                                    ta = o1.apply(_in_arr("a", I, A), I, ctx)
                                    tb = o2.apply(_in_arr(bname, I, B), I, ctx)
                                    ma = o1.mono(_in_mono("a", I, A), I, ctx)
                                    mb = o2.mono(_in_mono(bname, I, B), I, ctx)
                                    want |= G(I)
                                    for i in range(len(ta)):
                                        for j in range(len(tb)):
                                            if (i + j) % 2 == 0:
                                                want |= ta[i] | tb[j]
                                                wantm |= _mprod(ma[i], mb[j])
                            ok, why = _scalar_ok(o, frozenset(want), frozenset(wantm))
                            if ok and (snap(a) != sa or snap(b) != sb):
                                ok, why = False, "an operand was modified"
                            case = dict(case=name, orders=(A, B), n=n, a=wa, b=("the same object" if same_obj else wb))
                            if wv is not None:
                                case["factor"] = wv
                            cs.expect(blame(w, name, f), "%s: the value is built from exactly the even-power products of the two "
                                         "transformed pieces on every common interval and that interval's width; zero "
                                         "if no interval is shared" % name, case, o, ok, "(%s)" % why)
    return cs.flush()


def linear_suite(chk, w, rule, nmax, orders=(0, 1, 2, 3), ns=None, fixed=True):
    cs = Cases(chk, rule, w)
    w.I.allow_const_scaling = True
    w.I.int_arith_scopes = ("bspline::internal::",)  # faculty / binomial helpers: constant propagation  # kernel loop counters are bounded by template constants
    for n in _ns(2, nmax, ns):
        grid = w.need_grid(w.grid_values(n))
        for A in orders:
            for name, (op, vorder) in sorted(LF_CASES.items()):
                f = _case_fn(w, name, A)
                vw = windows(n) if vorder is not None else [None]
                for wa in windows(n):
                    for wv in vw:
                        a = w.spline_on("a", A, grid, *wa)
                        args = [box(a)]
                        ctx = {}
                        if vorder is not None:
                            args.append(box(w.spline_on("v", vorder, grid, *wv)))
                            ctx["v"] = ("v", vorder, wv)
                        sa = snap(a)
                        o = w.call(f, None, args)
                        want = set()
                        wantm = set()
                        for I in range(n - 1):
                            if wa[0] <= I and I + 1 < wa[1]:
                                ta = op.apply(_in_arr("a", I, A), I, ctx)
                                ma = op.mono(_in_mono("a", I, A), I, ctx)
                                want |= G(I)
                                for i in range(0, len(ta), 2):
                                    want |= ta[i]
                                    wantm |= ma[i]
                        ok, why = _scalar_ok(o, frozenset(want), frozenset(wantm))
                        if ok and snap(a) != sa:
                            ok, why = False, "the operand was modified"
                        case = dict(case=name, order=A, n=n, a=wa)
                        if wv is not None:
                            case["factor"] = wv
                        cs.expect(blame(w, name, f), "%s: the value is built from exactly the even-power coefficients of the "
                                     "transformed piece on every interval of the operand and that interval's width; "
                                     "zero for an interval-free spline" % name, case, o, ok, "(%s)" % why)
    return cs.flush()


def quadrature_suite(chk, w, rule, nmax, order_pairs=((1, 1), (2, 1), (0, 3), (2, 2)), ns=None, fixed=True):
    cs = Cases(chk, rule, w)
    w.I.allow_const_scaling = True
    w.I.int_arith_scopes = ("bspline::internal::",)  # faculty / binomial helpers: constant propagation  # kernel loop counters are bounded by template constants
    for n in _ns(2, nmax, ns):
        grid = w.need_grid(w.grid_values(n))
        for (A, B) in order_pairs:
            for name in ("quad2", "quad5"):
                f = _case_fn(w, name, A, lambda f: ("Spline<%s, %d>" % (w.T, B)) in f.decl["params"][1]["type"])
                for wa in windows(n):
                    for wb in windows(n):
                        a = w.spline_on("a", A, grid, *wa)
                        b = w.spline_on("b", B, grid, *wb)
                        sa, sb = snap(a), snap(b)
                        o = w.call(f, None, [box(a), box(b)])
                        want = set()
                        wantm = set()
                        for I in range(n - 1):
                            if wa[0] <= I and I + 1 < wa[1] and wb[0] <= I and I + 1 < wb[1]:
                                want |= G(I)
                                want |= {("c", "a", I, j) for j in range(A + 1)}
                                want |= {("c", "b", I, j) for j in range(B + 1)}
                                wantm |= {(("c", "a", I, i), ("c", "b", I, j)) for i in range(A + 1)
                                          for j in range(B + 1)}
                        ok, why = _scalar_ok(o, frozenset(want), frozenset(wantm))
                        if ok:
                            # every common interval is accumulated exactly once (affine form in the per-interval
                            # contributions q[I, I+1]; not asserted if the implementation rescales them)
                            fm = val(o.v).form()
                            if fm is not None and any(k_ is not None and k_[0] == "q" for k_ in fm):
                                wantq = {("q", I, I + 1): 1 for I in range(n - 1)
                                         if wa[0] <= I and I + 1 < wa[1] and wb[0] <= I and I + 1 < wb[1]}
                                if {k_: v_ for k_, v_ in fm.items() if k_ is not None} != wantq or fm.get(None, 0) != 0:
                                    ok, why = False, "the sum of the interval contributions is %s, specified: each common " \
                                                     "interval exactly once" % _fmt_q(fm)
                        if ok and (snap(a) != sa or snap(b) != sb):
                            ok, why = False, "an operand was modified"
                        cs.expect(blame(w, name, f), "%s: the quadrature extends over exactly the common intervals, with both splines' "
                                     "pieces of the same interval and that interval's end points; zero if none" % name,
                                  dict(case=name, orders=(A, B), n=n, a=wa, b=wb), o, ok, "(%s)" % why)
    return cs.flush()


def constant_table_suite(chk, w, rule, nmax=8, ns=None, fixed=True):
    """Constant propagation through the pure integer->scalar helpers (all callers pass template constants and
    loop counters bounded by them): faculty(n) = n!, facultyRatio(a, b) = a!/b!, binomialCoefficient(n, k) = C(n, k)."""
    import math
    from fractions import Fraction
    cs = Cases(chk, rule, w)
    w.I.allow_int_arith = True
    w.I.allow_const_scaling = True
    w.I.int_arith_scopes = ("bspline::internal::",)  # faculty / binomial helpers: constant propagation
    T = w.T
    # a helper that is no longer instantiated is no longer used by any operator: nothing to decide for it
    ffac = w.free("bspline::internal::faculty", lambda f: f.decl["rtype"] == T, required=False)
    frat = w.free("bspline::internal::facultyRatio", lambda f: f.decl["rtype"] == T, required=False)
    fbin = w.free("bspline::internal::binomialCoefficient", lambda f: f.decl["rtype"] == T, required=False)
    if ffac is None and frat is None and fbin is None:
        # no operator uses the integer -> scalar helpers any more (e.g. factorial factors built by repeated
        # multiplication): nothing to decide here; the operators' values are decided by the kernel suites
        return cs.flush()

    def is_const(o, v):
        return o.kind == "val" and isinstance(val(o.v), Sc) and val(o.v).v == v and not val(o.v).deps

    for n in range(0, nmax + 1):
        if ffac is not None:
            o = w.call(ffac, None, [n])
            cs.expect(ffac, "faculty(n) = n!", dict(n=n), o, is_const(o, math.factorial(n)), str(math.factorial(n)))
        for k in range(0, nmax + 1):
            if frat is not None:
                o = w.call(frat, None, [n, k])
                want = Fraction(math.factorial(n), math.factorial(k))
                cs.expect(frat, "facultyRatio(a, b) = a!/b!", dict(a=n, b=k), o, is_const(o, want), str(want))
            if fbin is not None:
                o = w.call(fbin, None, [n, k])
                want = math.comb(n, k) if k <= n else 0
                cs.expect(fbin, "binomialCoefficient(n, k) = C(n, k) (0 for k > n)", dict(n=n, k=k), o,
                          is_const(o, want), str(want))
    return cs.flush()


# ------------------------------------------------------------------------------------------------
# kernels: the VALUE of evaluation, linear forms and bilinear forms as exact (bi)linear functionals
# ------------------------------------------------------------------------------------------------
def _grids(w, n, spacings, offsets=(0, 1, 5), tensor=False):
    """Grids of n points with every combination of the given widths (sampled to <= 36) and a few offsets."""
    from fractions import Fraction as Fr
    import itertools
    if n - 1 > 6:
        # threshold extension (run_jobs re-runs the suites on grids beyond a size threshold found in the code): the full
        # product of widths is out of reach; uniform grids plus cyclic patterns of the widths
        m = len(spacings)
        combos = [tuple([h] * (n - 1)) for h in spacings[:3]] + [
            tuple(spacings[(i * k + j) % m] for i in range(n - 1)) for (k, j) in ((1, 0), (1, 2), (2, 1), (3, 0))]
    else:
        combos = list(itertools.product(spacings, repeat=n - 1))
    if len(combos) > 36:
        combos = [c for i, c in enumerate(combos) if len(set(c)) == 1 or i % (len(combos) // 30) == 0]
    out = []
    for ci, sp in enumerate(combos):
        for off in (offsets if (ci % 4 == 0 or tensor) else offsets[:1]):
            xs = [Fr(off)]
            for h in sp:
                xs.append(xs[-1] + h)
            pts = [Sc(v, frozenset([("grid", i)])) for i, v in enumerate(xs)]
            out.append((xs, w.need_grid(pts)))
    # placements on which data-derived quantities vanish: the first interval centred at the origin (midpoint exactly 0) and
    # an interior / last grid point at 0 - a kernel that divides by a midpoint or a grid point divides by an exact zero here
    for sp in combos[:2] + combos[-1:]:
        for off in (-Fr(sp[0], 2), -Fr(sp[0])):
            xs = [off]
            for h in sp:
                xs.append(xs[-1] + h)
            pts = [Sc(v, frozenset([("grid", i)])) for i, v in enumerate(xs)]
            out.append((xs, w.need_grid(pts)))
    return out


def _lin_of(o):
    x = val(o.v) if o.kind == "val" else None
    if not isinstance(x, Sc) or x.lin is None:
        return None
    return {k: q for k, q in x.lin.items() if q != 0}


def kernel_suite(chk, w, rule, orders=(0, 1, 2, 3), order_pairs=((1, 1), (2, 1), (0, 3), (2, 2)), ns=None, fixed=True,
                 spacings=(1, 2, 3, 5, 7, 11), parts=("lf", "eval", "bf"), nmax=None, cases=None):
    """Exact affine forms (rational weights computed from the representative grid) of
       * Spline::operator()(x):  sum_p a_p(I) (x - xm_I)^p            for x inside interval I,
       * LinearForm{}(a):        sum_I sum_{p even} a_p(I) 2 h_I^{p+1} / (p+1),
       * ScalarProduct{}(a, b):  sum_I sum_{i+j even} a_i(I) b_j(I) 2 h_I^{i+j+1} / (i+j+1)   (b = unit coefficient vectors),
    each weight being a polynomial of bounded degree in the interval's half width h (ring operations only, asserted),
    compared on degree+1 distinct widths."""
    from fractions import Fraction as Fr
    from . import interp as _ip
    cs = Cases(chk, rule, w)
    del _PREMISE_FAILS[:]
    w.I.allow_const_scaling = True
    w.I.int_arith_scopes = ("bspline::internal::",)
    T = w.T

    def ring_only(c0, d0):
        return _ip.N_SC_CMP[0] == c0 and _ip.N_DIV_DEP[0] == d0

    for n in (ns or (2, 3)):
        # ---- linear form and evaluation
        for A in (orders if ("lf" in parts or "eval" in parts) else ()):
            flf = _case_fn(w, "lf_id", A)
            cls = w.spline_cls(A)
            fe = w.method(cls, "operator()", 1)
            need = A + 2
            if len(spacings) < need:
                raise AnalysisBroken("kernel_suite: %d widths needed for order %d" % (need, A))
            for xs, grid in _grids(w, n, spacings[:need]):
                wins = [(0, n)] if n == 2 else [(0, n), (0, n - 1), (1, n)]
                for (s_, e_) in wins:
                    a = w.spline_on("a", A, grid, s_, e_)
                    case = dict(order=A, points=[str(x) for x in xs], window=(s_, e_))
                    if "lf" in parts:
                        c0, d0 = _ip.N_SC_CMP[0], _ip.N_DIV_DEP[0]
                        o = w.call(flf, None, [box(a)])
                        want = {}
                        for I in range(s_, e_ - 1):
                            h = (xs[I + 1] - xs[I]) / 2
                            for p_ in range(0, A + 1, 2):
                                want[("c", "a", I, p_)] = 2 * h ** (p_ + 1) / (p_ + 1)
                        got = _lin_of(o)
                        ok = got == want
                        _premise(ok, ring_only(c0, d0), "LinearForm::evaluate")
                        cs.expect(blame(w, "lf_id", flf), "LinearForm{}(a) = sum over the intervals of sum_{p even} a_p 2 h^(p+1)/"
                                  "(p+1) (exact weights, ring operations only)", case, o, ok,
                                  "(got %s, specified %s)" % (_fmt_w(got), _fmt_w(want)))
                    # evaluation at order+1 abscissae inside every interval, at the end points and outside
                    for I in (range(s_, e_ - 1) if "eval" in parts else ()):
                        xm = (xs[I] + xs[I + 1]) / 2
                        for t in range(A + 2):
                            x = xs[I] + (xs[I + 1] - xs[I]) * Fr(t, A + 1)
                            if t == A + 1 and I + 1 < e_ - 1:
                                continue   # a shared interior grid point may be attributed to either neighbour
                            if t == 0 and I > s_:
                                continue
                            o = w.call(fe, a, [box(Sc(x, frozenset([("x",)])))])
                            want = {("c", "a", I, p_): (x - xm) ** p_ for p_ in range(A + 1) if (x - xm) ** p_ != 0}
                            got = _lin_of(o)
                            cs.expect(fe, "a(x) = sum_p a_p(I) (x - midpoint_I)^p for x in interval I (exact weights)",
                                      dict(case, interval=I, x=str(x)), o, got == want,
                                      "(got %s, specified %s)" % (_fmt_w(got), _fmt_w(want)))
        # ---- the named operator expressions as exact linear maps (scalar c and the factor's coefficients exact)
        if "ops" in parts:
            from .r_reg_spl import spline_view
            for name in sorted(cases or OP_CASES):
                spec, need_c, vorder = OP_CASES[name]
                for A in orders:
                    f = _case_fn(w, name, A)
                    gl = _grids(w, n, spacings[:4], offsets=(0, 1, 5, 6), tensor=(n == 2))
                    for gi, (xs, grid) in enumerate(gl):
                        if n > 2 and gi % 3:
                            continue
                        for kv in ((_Fr(3), _Fr(-5, 2)) if need_c else (None,)):
                            if kv is not None and kv != _Fr(3) and gi % 4:
                                continue
                            for wv in (([(0, n)] if n == 2 else [(0, n), (0, n - 1), (1, n)]) if vorder is not None else [None]):
                                a = w.spline_on("a", A, grid, 0, n)
                                args = [box(a)]
                                ctx = {}
                                if vorder is not None:
                                    vv = {I: [_Fr(2 * I + 3 + 5 * j) for j in range(vorder + 1)] for I in range(wv[0], wv[1] - 1)}
                                    cv = Vec([Arr([Sc(vv[I][j], frozenset([("c", "v", I, j)])) for j in range(vorder + 1)])
                                              for I in range(wv[0], wv[1] - 1)])
                                    v = w.need_spline(vorder, w.need_support(grid, *wv), cv)
                                    args.append(box(v))
                                    ctx.update(v=("v", vorder, wv), vval=vv)
                                if need_c:
                                    args.append(box(Sc(kv, frozenset([("k",)]))))
                                    ctx["k"] = kv
                                o = w.call(f, None, args)
                                ok, why = False, repr(o)
                                if o.kind == "val" and isinstance(val(o.v), Obj):
                                    view = spline_view(w, val(o.v))
                                    ok, why = view is not None, "result not observable"
                                    for I in (range(0, n - 1) if ok else ()):
                                        arr = view[1].get(I)
                                        wantl = spec.lin([{("c", "a", I, j): _Fr(1)} for j in range(A + 1)], I,
                                                         dict(ctx, xm=(xs[I] + xs[I + 1]) / 2))
                                        if wantl is None:
                                            ok, why = True, "(no value specification for this expression)"
                                            break
                                        if arr is None:
                                            ok, why = False, "interval %d missing in the result" % I
                                            break
                                        for q in range(max(len(arr), len(wantl))):
                                            wq = {k_: v_ for k_, v_ in (wantl[q] if q < len(wantl) else {}).items() if v_ != 0}
                                            x = arr[q] if q < len(arr) else None
                                            got = {} if x is None else (
                                                {k_: v_ for k_, v_ in (x.lin or {}).items() if v_ != 0 and k_ is not None}
                                                if isinstance(x, Sc) and x.lin is not None else None)
                                            if got != wq:
                                                ok, why = False, "coefficient %d of interval %d is %s, specified %s" % (
                                                    q, I, _fmt_w(got), _fmt_w(wq))
                                                break
                                        if not ok:
                                            break
                                case = dict(case=name, order=A, points=[str(x) for x in xs])
                                if kv is not None:
                                    case["c"] = str(kv)
                                if wv is not None:
                                    case["factor"] = wv
                                cs.expect(blame(w, name, f), "%s: the result is the exact linear image of the operand the spelled "
                                          "expression denotes (re-expansion weights, factorial factors, scalar, factor's "
                                          "piece)" % name, case, o, ok, "(%s)" % why)
        # ---- linear / bilinear forms over operator expressions: kernel weights applied to the exact operator images
        def exact_factor(grid, vorder, wv, salt=0):
            vv = {I: [_Fr(2 * I + 3 + 5 * j + salt) for j in range(vorder + 1)] for I in range(wv[0], wv[1] - 1)}
            cv = Vec([Arr([Sc(vv[I][j], frozenset([("c", "v", I, j)])) for j in range(vorder + 1)])
                      for I in range(wv[0], wv[1] - 1)])
            return w.need_spline(vorder, w.need_support(grid, *wv), cv), vv

        if "lfops" in parts:
            for name, (op, vorder) in sorted(LF_CASES.items()):
                for A in orders:
                    f = _case_fn(w, name, A)
                    for gi, (xs, grid) in enumerate(_grids(w, n, spacings[:A + 5 if A + 5 <= len(spacings) else len(spacings)],
                                                           offsets=(0, 1, 5), tensor=(n == 2))):
                        if n > 2 and gi % 3:
                            continue
                        for wv in (([(0, n)] if n == 2 else [(0, n), (0, n - 1), (1, n)]) if vorder is not None else [None]):
                            a = w.spline_on("a", A, grid, 0, n)
                            args, ctx = [box(a)], {}
                            if vorder is not None:
                                v, vv = exact_factor(grid, vorder, wv)
                                args.append(box(v))
                                ctx.update(v=("v", vorder, wv), vval=vv)
                            o = w.call(f, None, args)
                            want = {}
                            for I in range(n - 1):
                                h = (xs[I + 1] - xs[I]) / 2
                                tp = op.lin([{("c", "a", I, j): _Fr(1)} for j in range(A + 1)], I,
                                            dict(ctx, xm=(xs[I] + xs[I + 1]) / 2))
                                for p_ in range(0, len(tp), 2):
                                    want = _ladd(want, _lscale(tp[p_], 2 * h ** (p_ + 1) / (p_ + 1)))
                            want = {k_: v_ for k_, v_ in want.items() if v_ != 0}
                            got = _lin_of(o)
                            case = dict(case=name, order=A, points=[str(x) for x in xs])
                            if wv is not None:
                                case["factor"] = wv
                            cs.expect(blame(w, name, f), "%s: the value is the integral of the exact image of the operand "
                                      "(kernel weights 2 h^(p+1)/(p+1) on the even powers of O a)" % name, case, o,
                                      got == want, "(got %s, specified %s)" % (_fmt_w(got), _fmt_w(want)))
        if "bfops" in parts:
            for name, (o1, o2, vorder) in sorted(BF_CASES.items()):
                for (A, B) in order_pairs:
                    f = _case_fn(w, name, A, lambda f_: ("Spline<%s, %d>" % (T, B)) in f_.decl["params"][1]["type"])
                    for gi, (xs, grid) in enumerate(_grids(w, n, spacings[:min(len(spacings), A + B + 4)], offsets=(0, 1, 5),
                                                           tensor=(n == 2))):
                        if (n > 2 and gi % 3) or (n == 2 and gi % 2 and A + B > 3):
                            continue
                        for salt in (0, 7):
                            for wv in (([(0, n)] if n == 2 else [(0, n), (1, n)]) if vorder is not None else [None]):
                                a = w.spline_on("a", A, grid, 0, n)
                                bb = {I: [_Fr(3 * I + 2 + 7 * j + salt) for j in range(B + 1)] for I in range(n - 1)}
                                cb = Vec([Arr([Sc(bb[I][j], frozenset([("c", "b", I, j)])) for j in range(B + 1)])
                                          for I in range(n - 1)])
                                b = w.need_spline(B, w.need_support(grid, 0, n), cb)
                                args, ctx = [box(a), box(b)], {}
                                if name == "bf_aff":
                                    kv = {("k",): _Fr(3), ("k2",): _Fr(-5, 2)}
                                    args += [box(Sc(kv[("k",)], frozenset([("k",)]))), box(Sc(kv[("k2",)], frozenset([("k2",)])))]
                                    ctx["kvals"] = kv
                                if vorder is not None:
                                    v, vv = exact_factor(grid, vorder, wv, salt)
                                    args.append(box(v))
                                    ctx.update(v=("v", vorder, wv), vval=vv)
                                o = w.call(f, None, args)
                                want = {}
                                for I in range(n - 1):
                                    h = (xs[I + 1] - xs[I]) / 2
                                    c2 = dict(ctx, xm=(xs[I] + xs[I + 1]) / 2)
                                    ta = o1.lin([{("c", "a", I, j): _Fr(1)} for j in range(A + 1)], I, c2)
                                    tb = o2.lin([{None: bb[I][j]} for j in range(B + 1)], I, c2)
                                    for i in range(len(ta)):
                                        for j in range(len(tb)):
                                            if (i + j) % 2 == 0:
                                                q = tb[j].get(None, 0)
                                                if q != 0:
                                                    want = _ladd(want, _lscale(ta[i], q * 2 * h ** (i + j + 1) / (i + j + 1)))
                                want = {k_: v_ for k_, v_ in want.items() if v_ != 0}
                                got = _lin_of(o)
                                case = dict(case=name, orders=(A, B), points=[str(x) for x in xs], b_salt=salt)
                                if wv is not None:
                                    case["factor"] = wv
                                cs.expect(blame(w, name, f), "%s: the value is the integral of the product of the exact images "
                                          "(O1 a)(O2 b), b with exact coefficients" % name, case, o, got == want,
                                          "(got %s, specified %s)" % (_fmt_w(got), _fmt_w(want)))
        # ---- a * b with b running over unit coefficient vectors: r_k(I) = sum_j a_j(I) b_(k-j)(I), weights exactly 1
        for (A, B) in (order_pairs if "mul" in parts else ()):
            clsA = w.spline_cls(A)
            fmul = w.method(clsA, "operator*", 1, pred=lambda d: ("Spline<%s, %d>" % (T, B)) in d["params"][0]["type"])
            grid = w.need_grid(w.grid_values(n))
            from .r_reg_spl import spline_view
            for (s_, e_) in ([(0, n)] if n == 2 else [(0, n), (1, n)]):
                a = w.spline_on("a", A, grid, s_, e_)
                for Ib in range(s_, e_ - 1):
                    for j in range(B + 1):
                        cb = Vec([Arr([Sc(1 if (I == Ib and q == j) else 0) for q in range(B + 1)])
                                  for I in range(s_, e_ - 1)])
                        b = w.need_spline(B, w.need_support(grid, s_, e_), cb)
                        c0, d0 = _ip.N_SC_CMP[0], _ip.N_DIV_DEP[0]
                        o = w.call(fmul, a, [box(b)])
                        ok, why = False, repr(o)
                        if o.kind == "val" and isinstance(val(o.v), Obj):
                            v = spline_view(w, val(o.v))
                            ok, why = v is not None, "result not observable"
                            for I in (range(s_, e_ - 1) if ok else ()):
                                arr = v[1].get(I)
                                if arr is None or len(arr) != A + B + 1:
                                    ok, why = False, "interval %d of the product has no array of %d coefficients" % (I, A + B + 1)
                                    break
                                for k in range(A + B + 1):
                                    want = {("c", "a", I, k - j): 1} if (I == Ib and 0 <= k - j <= A) else {}
                                    x = arr[k]
                                    got = {k_: v_ for k_, v_ in (x.lin or {}).items() if v_ != 0} if isinstance(
                                        x, Sc) and x.lin is not None else None
                                    if got != want:
                                        ok, why = False, "coefficient %d of interval %d is %s, specified %s" % (
                                            k, I, _fmt_w(got), _fmt_w(want))
                                        break
                                if not ok:
                                    break
                            _premise(ok, ring_only(c0, d0), "Spline::operator*")
                        cs.expect(fmul, "a*b with b a unit coefficient vector: coefficient k of interval I is exactly a_(k-j)(I) "
                                  "(the Cauchy product, weights 1)", dict(orders=(A, B), n=n, window=(s_, e_), b_interval=Ib,
                                                                          b_power=j), o, ok, "(%s)" % why)
        # ---- x^m * a: re-expansion about the interval's midpoint, r_q = sum_k C(m,k) xm^(m-k) a_(q-k)
        import math
        for A in (orders if "pos" in parts else ()):
            for m in (0, 1, 2, 3):
                fx = _case_fn(w, "op_x%d" % m, A)
                for xs, grid in _grids(w, n, spacings[:4], offsets=(0, 1, 5, 6), tensor=True):
                    s_, e_ = 0, n
                    a = w.spline_on("a", A, grid, s_, e_)
                    c0, d0 = _ip.N_SC_CMP[0], _ip.N_DIV_DEP[0]
                    o = w.call(fx, None, [box(a)])
                    ok, why = False, repr(o)
                    if o.kind == "val" and isinstance(val(o.v), Obj):
                        from .r_reg_spl import spline_view
                        v = spline_view(w, val(o.v))
                        ok, why = v is not None, "result not observable"
                        for I in (range(s_, e_ - 1) if ok else ()):
                            arr = v[1].get(I)
                            xm = (xs[I] + xs[I + 1]) / 2
                            if arr is None or len(arr) != A + m + 1:
                                ok, why = False, "interval %d of the result has no array of %d coefficients" % (I, A + m + 1)
                                break
                            for q in range(A + m + 1):
                                want = {}
                                for k in range(m + 1):
                                    if 0 <= q - k <= A and xm ** (m - k) != 0:
                                        want[("c", "a", I, q - k)] = math.comb(m, k) * xm ** (m - k)
                                got = {k_: v_ for k_, v_ in (arr[q].lin or {}).items() if v_ != 0} if isinstance(
                                    arr[q], Sc) and arr[q].lin is not None else None
                                if got != want:
                                    ok, why = False, "coefficient %d of interval %d is %s, specified %s" % (
                                        q, I, _fmt_w(got), _fmt_w(want))
                                    break
                            if not ok:
                                break
                        _premise(ok, ring_only(c0, d0), "Position::transform")
                    cs.expect(blame(w, "op_x%d" % m, fx), "x^m a: coefficient q of interval I is sum_k C(m,k) midpoint^(m-k) "
                              "a_(q-k)(I) (exact weights, ring operations only)",
                              dict(order=A, m=m, points=[str(x) for x in xs]), o, ok, "(%s)" % why)
        # ---- scalar product with unit coefficient vectors on the right
        for (A, B) in (order_pairs if "bf" in parts else ()):
            fbf = _case_fn(w, "bf_id", A, lambda f: ("Spline<%s, %d>" % (T, B)) in f.decl["params"][1]["type"])
            need = A + B + 2
            if len(spacings) < need:
                raise AnalysisBroken("kernel_suite: %d widths needed for orders (%d,%d)" % (need, A, B))
            for xs, grid in _grids(w, n, spacings[:need], offsets=(0, 3)):
                s_, e_ = 0, n
                a = w.spline_on("a", A, grid, s_, e_)
                for Ib in range(s_, e_ - 1):
                    for j in range(B + 1):
                        cb = Vec([Arr([Sc(1 if (I == Ib and q == j) else 0) for q in range(B + 1)])
                                  for I in range(s_, e_ - 1)])
                        b = w.need_spline(B, w.need_support(grid, s_, e_), cb)
                        c0, d0 = _ip.N_SC_CMP[0], _ip.N_DIV_DEP[0]
                        o = w.call(fbf, None, [box(a), box(b)])
                        h = (xs[Ib + 1] - xs[Ib]) / 2
                        want = {("c", "a", Ib, i): 2 * h ** (i + j + 1) / (i + j + 1) for i in range(A + 1)
                                if (i + j) % 2 == 0}
                        got = _lin_of(o)
                        ok = got == want
                        _premise(ok, ring_only(c0, d0), "BilinearForm::evaluate")
                        cs.expect(blame(w, "bf_id", fbf), "<a|b> = sum over the common intervals of sum_{i+j even} a_i b_j 2 h^(i+j+1)/"
                                  "(i+j+1) (b = unit coefficient vectors; exact weights, ring operations only)",
                                  dict(orders=(A, B), points=[str(x) for x in xs], b_interval=Ib, b_power=j), o, ok,
                                  "(got %s, specified %s)" % (_fmt_w(got), _fmt_w(want)))
    _premise_verdict(cs)
    return cs.flush()


def _premise(values_agree, ring_only, what):
    """The polynomial-identity argument needs a kernel made of ring operations only. If the values agree on every sampled
    grid but the kernel compares or divides by data, agreement for all grids does not follow: that is 'not analysed', not
    a violation (a disagreement on a sampled grid is a violation either way)."""
    if values_agree and not ring_only:
        # deferred to the end of the suite: a sampled grid on which the values DISAGREE (e.g. the division hits an exact
        # zero on a placement centred at the origin) is a violation and takes precedence over 'not analysed'
        _PREMISE_FAILS.append("%s compares or divides by data: its value is not a polynomial of the grid points, the "
                              "degree+1-widths argument of the kernel check does not apply" % what)


_PREMISE_FAILS = []


def _premise_verdict(cs):
    if _PREMISE_FAILS:
        msg = _PREMISE_FAILS[0]
        del _PREMISE_FAILS[:]
        if not any(st.get("bad") for st in cs.stats.values()):
            raise AnalysisBroken(msg)


def _fmt_w(l):
    if l is None:
        return "not an affine form"
    return " + ".join("%s*%s" % (q, "1" if k is None else "%s%s" % (k[1], list(k[2:]))) for k, q in sorted(
        l.items(), key=lambda kv: str(kv[0]))) or "0"
