"""R-REG suites on Spline: evaluation framing (C02), predicates (C15), validity (C10/C11),
arithmetic framing by dependence sets (C03), operand preservation (C14)."""
import itertools
from fractions import Fraction

from .facts import AnalysisBroken
from .interp import NAN, U64, Arr, Iter, LV, Obj, Opt, Sc, SharedPtr, Vec, box, copy_value, val
from .r_reg import BSE, Cases, World, fmt, windows
from .r_reg_sup import different_grids, is_bool, is_grid_elem, is_val, same_window, spec_intersection, spec_union


EXTENDED_FROM = 9


def _ns(lo, hi, ns):
    """Grid sizes handled by this job: lo..hi, or the explicit subset ns."""
    full = range(lo, hi + 1)
    ext = [n for n in (ns or ()) if n > hi and n >= EXTENDED_FROM]   # threshold extension (r_reg.run_jobs), sparse windows
    return [n for n in full if ns is None or n in ns] + ext


# ------------------------------------------------------------------------------------------------
# observation helpers (public API only)
# ------------------------------------------------------------------------------------------------
def snap(v, depth=0):
    """Structural snapshot of a model value (for 'operands unchanged' checks)."""
    v = val(v)
    if isinstance(v, Obj):
        return (v.cls,) + tuple((k, snap(x, depth + 1)) for k, x in sorted(v.fields.items()))
    if isinstance(v, Vec):
        return ("vec",) + tuple(snap(x, depth + 1) for x in v.items)
    if isinstance(v, SharedPtr):
        return ("sp", id(v.target)) + ((snap(v.target, depth + 1),) if v.target is not None else ())
    if isinstance(v, Sc):
        return ("sc", v.v, v.deps, None if v.lin is None else frozenset((k, q) for k, q in v.lin.items() if q != 0))
    if isinstance(v, Opt):
        return ("opt", v.has, snap(v.v) if v.has else None)
    return v if isinstance(v, (int, str)) or v is None else repr(v)


def spline_view(w, sp):
    """(window, {absolute interval: [Sc...]}, ncoeff) of a spline through getSupport()/getCoefficients(), or None."""
    s = w.mcall(sp, "getSupport")
    c = w.mcall(sp, "getCoefficients")
    if s.kind != "val" or c.kind != "val":
        return None
    sup = val(s.v)
    win = w.window(sup)
    cv = val(c.v)
    if win is None or not isinstance(cv, Vec):
        return None
    table = {}
    for i, arr in enumerate(cv.items):
        table[win[0] + i] = list(arr.items) if isinstance(arr, Vec) else None
    return win, table, len(cv.items), sup


def valid_spline(w, sp, n):
    """Class invariants of C10 for a spline on a grid of n points (observed through the public API)."""
    v = spline_view(w, sp)
    if v is None:
        return False, "invalid: accessors fail"
    (s, e), table, ncoef, sup = v
    if not ((s == 0 and e == 0) or (s < e <= n)):
        return False, "invalid: support window (%d,%d) outside grid of %d points" % (s, e, n)
    if ncoef != max(e - s, 1) - 1:
        return False, "invalid: %d coefficient arrays for %d intervals" % (ncoef, max(e - s, 1) - 1)
    return True, ""


def is_zero_const(x):
    return isinstance(x, Sc) and x.v == 0 and not x.deps


def catoms(name, I, order):
    return {("c", name, I, j) for j in range(order + 1)}


def coef_deps(x):
    return frozenset(d for d in x.deps if d[0] == "c")


def grid_deps(x):
    return frozenset(d for d in x.deps if d[0] == "grid")


# ------------------------------------------------------------------------------------------------
# C02: evaluation framing
# ------------------------------------------------------------------------------------------------
def eval_suite(chk, w, rule, nmax, orders=(0, 1, 2), ns=None, fixed=True):
    cs = Cases(chk, rule, w)
    for order in orders:
        cls = w.spline_cls(order)
        fe = w.method(cls, "operator()", 1)
        ffront = w.method(cls, "front", 0)
        fback = w.method(cls, "back", 0)
        for n in _ns(2, nmax, ns):
            grid = w.need_grid(w.grid_values(n))
            for (s, e) in windows(n):
                sp = w.spline_on("a", order, grid, s, e)
                size = e - s
                case0 = dict(order=order, n=n, window=(s, e))
                o = w.call(ffront, sp, [])
                cs.expect(ffront, "front: throws iff the support is empty, else the left end point", case0, o,
                          o.throws_lib() if size == 0 else is_grid_elem(o, s),
                          "throws BSplineException" if size == 0 else "grid[%d]" % s)
                o = w.call(fback, sp, [])
                cs.expect(fback, "back: throws iff the support is empty, else the right end point", case0, o,
                          o.throws_lib() if size == 0 else is_grid_elem(o, e - 1),
                          "throws BSplineException" if size == 0 else "grid[%d]" % (e - 1))
                ranks = list(range(-3, 2 * n + 2)) + [NAN]
                # evaluation is a function of (object value, x): a second evaluation on the same object, and an
                # evaluation after the object was re-assigned, give what a fresh object gives
                if size >= 2 and n <= 4:
                    inside = [r for r in ranks if r != NAN and 2 * s <= r <= 2 * (e - 1)]
                    for r1 in inside:
                        for r2 in inside:
                            sp1 = w.spline_on("a", order, grid, s, e)
                            w.call(fe, sp1, [box(Sc(r1, frozenset([("x",)])))])
                            o2 = w.call(fe, sp1, [box(Sc(r2, frozenset([("x",)])))])
                            of = w.call(fe, w.spline_on("a", order, grid, s, e), [box(Sc(r2, frozenset([("x",)])))])
                            same = o2.kind == of.kind and (o2.kind != "val" or (val(o2.v).deps == val(of.v).deps and
                                                                                val(o2.v).v == val(of.v).v))
                            cs.expect(fe, "evaluation does not depend on earlier evaluations of the same object",
                                      dict(order=order, n=n, window=(s, e), first_x=r1, then_x=r2), o2, same,
                                      "the result of a fresh object: %r" % (of,))
                    if order >= 1:
                        fas = w.method(cls, "operator=", 1, required=False,
                                       pred=lambda d: ("Spline<%s, %d>" % (w.T, order - 1)) in d["params"][0]["type"])
                        if fas is not None:
                            for (s2, e2) in windows(n):
                                if e2 - s2 < 2:
                                    continue
                                for r1 in inside[-2:]:
                                    sp1 = w.spline_on("a", order, grid, s, e)
                                    w.call(fe, sp1, [box(Sc(r1, frozenset([("x",)])))])
                                    low = w.spline_on("a", order - 1, grid, s2, e2)
                                    w.call(fas, sp1, [box(low)])
                                    for r2 in (2 * s2, 2 * (e2 - 1)):
                                        x2 = Sc(r2, frozenset([("x",)]))
                                        o2 = w.call(fe, sp1, [box(x2)])
                                        ok2 = o2.kind == "val" and isinstance(val(o2.v), Sc) and \
                                            len({d[2] for d in coef_deps(val(o2.v))}) == 1 and \
                                            all(s2 <= d[2] <= e2 - 2 and 2 * d[2] <= r2 <= 2 * d[2] + 2
                                                for d in coef_deps(val(o2.v)))
                                        cs.expect(fe, "evaluation after assignment from a lower-order spline uses the "
                                                      "new pieces", dict(order=order, n=n, old_window=(s, e),
                                                                         new_window=(s2, e2), evaluated_before=r1,
                                                                         x=r2), o2, ok2,
                                                  "the piece of an interval of the new support containing x")
                # a spline that was moved from (move assignment into a spline with any other window) denotes the zero
                # function: evaluation returns 0 everywhere, front() throws
                if n <= 4 and order <= 1:
                    for (s2, e2) in windows(n):
                        src = w.spline_on("a", order, grid, s, e)
                        dst = w.spline_on("b", order, grid, s2, e2)
                        om = w.run(lambda: w.I.assign_memberwise(dst, src, move=True), "Spline::operator=(Spline&&)")
                        if om.kind != "val":
                            continue
                        casem = dict(order=order, n=n, moved_from=(s, e), target_was=(s2, e2))
                        for r in sorted({2 * s, 2 * s + 1, 2 * s2, 2 * s2 + 1, 2 * (e2 - 1) if e2 else 0}):
                            o = w.call(fe, src, [box(Sc(r, frozenset([("x",)])))])
                            cs.expect(fe, "a moved-from spline evaluates to 0 everywhere", dict(casem, x=r), o,
                                      o.kind == "val" and is_zero_const(val(o.v)), "0")
                        o = w.call(ffront, src, [])
                        cs.expect(ffront, "front of a moved-from spline throws (its support is empty)", casem, o,
                                  o.throws_lib(), "throws BSplineException")
                before = snap(sp)
                for r in ranks:
                    x = Sc(r, frozenset([("x",)]))
                    case = dict(order=order, n=n, window=(s, e), x=("nan" if r == NAN else "%s (grid points at even "
                                                                      "ranks)" % r))
                    o = w.call(fe, sp, [box(x)])
                    if r == NAN:
                        cs.expect(fe, "evaluation at an unordered abscissa stays inside the object", case, o,
                                  o.kind == "val", "any value, no undefined behaviour")
                        continue
                    lo, hi = 2 * s, 2 * (e - 1)
                    if size < 2 or r < lo or r > hi:
                        ok = o.kind == "val" and is_zero_const(val(o.v))
                        cs.expect(fe, "zero outside the closed support", case, o, ok, "0")
                        continue
                    # inside: the value of the piece of ONE interval I with grid[I] <= x <= grid[I+1]
                    ok = False
                    want = "value of the polynomial stored for an interval containing x"
                    if o.kind == "val" and isinstance(val(o.v), Sc):
                        res = val(o.v)
                        cd = coef_deps(res)
                        ivs = {d[2] for d in cd}
                        if len(ivs) == 1:
                            I = next(iter(ivs))
                            contains = s <= I <= e - 2 and 2 * I <= r <= 2 * (I + 1)
                            full = cd == frozenset(catoms("a", I, order))
                            gd = grid_deps(res)
                            if order == 0:
                                frame = gd <= {("grid", I), ("grid", I + 1)}
                            else:
                                frame = gd == {("grid", I), ("grid", I + 1)} and ("x",) in res.deps
                            ok = contains and full and frame
                    cs.expect(fe, "inside the support: the piece of an interval containing x, expanded about that "
                                  "interval's midpoint", case, o, ok, want)
                cs.expect(fe, "evaluation (a const operation) leaves the object's state unchanged", case0, None,
                          snap(sp) == before, "identical state before and after")
    return cs.flush()


# ------------------------------------------------------------------------------------------------
# C15: predicates
# ------------------------------------------------------------------------------------------------
def predicate_suite(chk, w, rule, nmax, order_pairs=((1, 1), (2, 0), (0, 3)), ns=None, fixed=True):
    cs = Cases(chk, rule, w)
    # checkOverlap
    for (A, B) in order_pairs:
        cls = w.spline_cls(A)
        f = w.method(cls, "checkOverlap", 1, pred=lambda d: ("Spline<%s, %d>" % (w.T, B)) in d["params"][0]["type"])
        for n in _ns(2, nmax, ns):
            grid = w.need_grid(w.grid_values(n))
            grid2 = w.need_grid(w.grid_values(n))
            # the answer is a property of the two windows, not of the stored values: decided with exact all-zero and
            # all-one coefficients first (a predicate that consults the values is decidable there), then with opaque ones
            disagreed = False
            for cmode in (0, 1, None):
                if cmode is None and disagreed:
                    continue   # already reported; opaque values would only leave the fragment
                for wa in windows(n):
                    a = w.spline_on("a", A, grid, *wa, value=cmode)
                    for wb in windows(n):
                        for label, gb in (("same-object", grid), ("equal-distinct-object", grid2)):
                            if cmode is not None and label != "same-object":
                                continue
                            b = w.spline_on("b", B, gb, *wb, value=cmode)
                            o = w.call(f, a, [box(b)])
                            inter = spec_intersection(wa, wb)
                            share = inter[1] - inter[0] >= 2
                            ok = is_bool(o, share)
                            disagreed = disagreed or not ok
                            case = dict(orders=(A, B), n=n, a=wa, b=wb, grids=label)
                            if cmode is not None:
                                case["all_coefficients"] = cmode
                            cs.expect(f, "checkOverlap <=> the supports share at least one interval", case, o, ok, str(share))
    # isZero
    for order in (0, 1):
        cls = w.spline_cls(order)
        f = w.method(cls, "isZero", 0)
        for n in ((2, 3, 4,) if fixed else ()):
            grid = w.need_grid(w.grid_values(n))
            for (s, e) in windows(n):
                nint = max(e - s, 1) - 1
                slots = nint * (order + 1)
                if slots > 4:
                    continue
                for vals in itertools.product((0, 1, NAN), repeat=slots):
                    if sum(1 for v_ in vals if v_ == NAN) > 1:
                        continue
                    it = iter(vals)
                    coeffs = Vec([Arr([Sc(next(it)) for _ in range(order + 1)]) for _ in range(nint)])
                    sup = w.need_support(grid, s, e)
                    sp = w.need_spline(order, sup, coeffs)
                    o = w.call(f, sp, [])
                    zero = all(v_ == 0 for v_ in vals)
                    cs.expect(f, "isZero <=> no interval, or no stored coefficient compares unequal to zero",
                              dict(order=order, window=(s, e), coefficients=[("nan" if v_ == NAN else v_) for v_ in vals]),
                              o, is_bool(o, zero), str(zero))
    # isZero is a function of the current value: querying it does not freeze the answer
    for order in (0, 1):
        cls = w.spline_cls(order)
        f = w.method(cls, "isZero", 0)
        isT = lambda d: d["params"][0]["type"].replace("const ", "").strip(" &") == w.T
        fme = w.method(cls, "operator*=", 1, pred=isT)
        fm = w.method(cls, "operator*", 1, pred=isT)
        for n in ((2, 3,) if fixed else ()):
            grid = w.need_grid(w.grid_values(n))
            for (s, e) in windows(n):
                if e - s < 2:
                    continue
                for query_first in (False, True):
                    a = w.spline_on("a", order, grid, s, e, value=1)
                    if query_first:
                        o0 = w.call(f, a, [])
                        cs.expect(f, "isZero is false for a spline with non-zero coefficients",
                                  dict(order=order, n=n, window=(s, e)), o0, is_bool(o0, False), "False")
                    w.call(fme, a, [box(Sc(0))])
                    o = w.call(f, a, [])
                    cs.expect(f, "after s *= 0 the spline is zero, whether or not isZero was queried before",
                              dict(order=order, n=n, window=(s, e), queried_before=query_first), o, is_bool(o, True),
                              "True")
                    b = w.spline_on("a", order, grid, s, e, value=1)
                    if query_first:
                        w.call(f, b, [])
                    r = w.call(fm, b, [box(Sc(0))])
                    if r.kind == "val" and isinstance(val(r.v), Obj):
                        o = w.call(f, val(r.v), [])
                        cs.expect(f, "s * 0 is zero, whether or not isZero was queried on s before",
                                  dict(order=order, n=n, window=(s, e), queried_before=query_first), o,
                                  is_bool(o, True), "True")
    # history: the predicates of a moved-from spline are those of the interval-free zero spline on the same grid
    for order in ((1,) if fixed else ()):
        cls = w.spline_cls(order)
        fz = w.method(cls, "isZero", 0)
        feq0 = w.method(cls, "operator==", 1)
        fov = w.method(cls, "checkOverlap", 1,
                       pred=lambda d: ("Spline<%s, %d>" % (w.T, order)) in d["params"][0]["type"])
        gctor = w.ctor(cls, lambda d: len(d["params"]) == 1 and "Grid<" in d["params"][0]["type"] and
                       "Spline<" not in d["params"][0]["type"], "grid")
        for n in (3, 4):
            grid = w.need_grid(w.grid_values(n))
            for wa in windows(n):
                for wb in windows(n):
                    y = w.spline_on("a", order, grid, *wa)
                    tgt = w.spline_on("t", order, grid, *wb)
                    om = w.run(lambda: w.I.assign_memberwise(tgt, y, move=True), "Spline::operator=(Spline&&)")
                    if om.kind != "val":
                        continue
                    case = dict(order=order, n=n, moved_from=wa, its_target_was=wb)
                    o = w.call(fz, y, [])
                    cs.expect(fz, "a moved-from spline is zero", case, o, is_bool(o, True), "True")
                    e0 = w.run(lambda: w.I.construct(gctor, [box(grid)]), "Spline(grid)")
                    if e0.kind == "val":
                        o = w.call(feq0, y, [box(e0.v)])
                        cs.expect(feq0, "a moved-from spline equals the interval-free spline Spline(grid)", case, o,
                                  is_bool(o, True), "True")
                    other = w.spline_on("b", order, grid, 0, n)
                    o = w.call(fov, y, [box(other)])
                    cs.expect(fov, "a moved-from spline overlaps nothing", case, o, is_bool(o, False), "False")
    # equality
    for order in (0, 1):
        cls = w.spline_cls(order)
        feq = w.method(cls, "operator==", 1)
        fne = w.method(cls, "operator!=", 1)
        for n in ((2, 3, 4,) if fixed else ()):
            vals = w.grid_values(n)
            grid = w.need_grid(vals)
            grids = [("same-object", grid, True), ("equal-distinct-object", w.need_grid(vals), True)]
            for label, v2 in different_grids(w, n)[:3]:
                g = w.mk_grid(v2)
                if g.kind == "val":
                    grids.append((label, g.v, False))
            for wa in windows(n):
                na = max(wa[1] - wa[0], 1) - 1

                def mk(g, win, tweak):
                    ni = max(win[1] - win[0], 1) - 1
                    c = Vec([Arr([Sc(1 + i + j) for j in range(order + 1)]) for i in range(ni)])
                    if tweak and ni:
                        c.items[-1].items[-1] = Sc(99)
                    sup = w.mk_support(g, *win)
                    if sup.kind != "val":
                        return None
                    return w.need_spline(order, sup.v, c)

                a = mk(grid, wa, False)
                for label, gb, geq in grids:
                    nb = len(w.grid_points(gb))
                    for wb in windows(n):
                        if wb[1] > nb:
                            continue
                        for tweak in (False, True):
                            b = mk(gb, wb, tweak)
                            if b is None:
                                continue
                            nbint = max(wb[1] - wb[0], 1) - 1
                            eq = geq and same_window(wa, wb) and na == nbint and not (tweak and nbint > 0)
                            # point-like vs empty supports: windows differ -> unequal (same_window handles both-empty)
                            case = dict(order=order, n=n, a=wa, b=wb, grids=label, coefficient_differs=tweak)
                            for (x, y, sw) in ((a, b, 0), (b, a, 1)):
                                o = w.call(feq, x, [box(y)])
                                cs.expect(feq, "a == b <=> same window of logically equal grids and identical "
                                               "coefficients (symmetric)", dict(case, swapped=sw), o, is_bool(o, eq),
                                          str(eq))
                                o = w.call(fne, x, [box(y)])
                                cs.expect(fne, "!= is the negation of ==", dict(case, swapped=sw), o,
                                          is_bool(o, not eq), str(not eq))
                # reflexive and equal to its copy
                o = w.call(feq, a, [box(a)])
                cs.expect(feq, "equality is reflexive", dict(order=order, n=n, a=wa), o, is_bool(o, True), "True")
                cp = w.run(lambda: w.I.memberwise(a), "Spline copy").v
                o = w.call(feq, a, [box(cp)])
                cs.expect(feq, "an object equals its copy", dict(order=order, n=n, a=wa), o, is_bool(o, True), "True")
    return cs.flush()


# ------------------------------------------------------------------------------------------------
# C10 / C11: validity predicates and special members
# ------------------------------------------------------------------------------------------------
def validity_suite(chk, w, rule, nmax, ns=None, fixed=True):
    cs = Cases(chk, rule, w)
    for order in (0, 2):
        cls = w.spline_cls(order)
        ctor = w.ctor(cls, lambda d: len(d["params"]) == 2 and not d.get("copyctor") and not d.get("movector"),
                      "support, coefficients")
        cf = w.I.func(ctor["id"])
        gctor = w.ctor(cls, lambda d: len(d["params"]) == 1 and "Grid<" in d["params"][0]["type"], "grid")
        gf = w.I.func(gctor["id"])
        for n in _ns(2, nmax, ns):
            grid = w.need_grid(w.grid_values(n))
            o = w.run(lambda: w.I.construct(gctor, [box(grid)]), "Spline(grid)")
            ok = o.kind == "val" and valid_spline(w, o.v, n)[0] and spline_view(w, o.v)[2] == 0
            cs.expect(gf, "Spline(grid) is a valid interval-free spline", dict(order=order, n=n), o, ok,
                      "an empty spline")
            for (s, e) in windows(n):
                sup = w.need_support(grid, s, e)
                nint = max(e - s, 1) - 1
                for k in range(0, n + 1):
                    o = w.mk_spline(order, sup, w.coeffs("a", order, s, k))
                    good = (k == nint)
                    cs.expect(cf, "Spline(support, coefficients) succeeds iff #coefficient arrays = #intervals",
                              dict(order=order, n=n, window=(s, e), arrays=k), o,
                              (o.kind == "val") if good else o.throws_lib(),
                              "a spline" if good else "throws BSplineException")
    # moves and copies of Support and Spline leave valid objects; moved-from is interval-free on the same grid
    SUP = w.SUP
    rec = w.I.find_record(SUP)
    mctor = [d for d in w.I.methods[rec["id"]] if d.get("movector")]
    massign = [d for d in w.I.methods[rec["id"]] if d.get("moveassign")]
    cassign = [d for d in w.I.methods[rec["id"]] if d.get("copyassign")]
    if not mctor or not massign:
        raise AnalysisBroken("anchor vanished: Support move constructor / move assignment")
    for n in _ns(2, min(nmax, 4), ns):
        grid = w.need_grid(w.grid_values(n))
        for wa in windows(n):
            for wb in windows(n):
                case = dict(n=n, source=wa, target=wb)
                # move construction
                src = w.need_support(grid, *wa)
                o = w.run(lambda: w.I.construct(mctor[0], [box(src)]), "Support(Support&&)")
                f = w.I.func(mctor[0]["id"])
                ok = o.kind == "val" and same_window(w.window(o.v), wa) and w.window(src) == (0, 0) and \
                    _same_grid(w, src, grid)
                cs.expect(f, "move construction transfers the window; the source becomes the empty support on the same "
                             "grid", case, o, ok, "target=%s, source=(0,0)" % (wa,))
                # move assignment
                src = w.need_support(grid, *wa)
                dst = w.need_support(grid, *wb)
                f = w.I.func(massign[0]["id"])
                o = w.call(f, dst, [box(src)])
                ok = o.kind == "val" and same_window(w.window(dst), wa) and w.window(src) == (0, 0) and \
                    _same_grid(w, src, grid)
                cs.expect(f, "move assignment transfers the window; the source becomes the empty support on the same "
                             "grid", case, o, ok, "target=%s, source=(0,0)" % (wa,))
                # self move-assignment keeps a valid object
                if wa == wb:
                    s2 = w.need_support(grid, *wa)
                    o = w.call(f, s2, [box(s2)])
                    win = w.window(s2)
                    ok = o.kind == "val" and win is not None and ((win == (0, 0)) or (win[0] < win[1] <= n))
                    cs.expect(f, "self move-assignment leaves a valid support", case, o, ok, "a valid window")
    # assignment across grids: the target takes over grid AND window of the source
    from .r_reg_sup import different_grids
    for n in _ns(3, min(nmax, 4), ns):
        grid = w.need_grid(w.grid_values(n))
        for gname, pts in different_grids(w, n):
            other = w.mk_grid(pts)
            if other.kind != "val":
                continue
            m = len(pts)
            for wa in windows(n):
                for wb in windows(m):
                    for kind, ops in (("move", massign), ("copy", cassign)):
                        if not ops or w.I.func(ops[0]["id"]) is None:
                            continue
                        src = w.need_support(grid, *wa)
                        dst = w.need_support(other.v, *wb)
                        f = w.I.func(ops[0]["id"])
                        o = w.call(f, dst, [box(src)])
                        ok = o.kind == "val" and same_window(w.window(dst), wa) and _same_grid(w, dst, grid) and \
                            (kind == "move" or same_window(w.window(src), wa))
                        cs.expect(f, "%s assignment from a support on a different grid: the target takes over grid and "
                                     "window" % kind, dict(n=n, source=wa, target_grid=gname, target=wb), o, ok,
                                  "target = former source (grid and window %s)" % (wa,))
    # Spline move (implicit, member-wise): moved-from spline is valid and interval-free
    for order in (1,):
        cls = w.spline_cls(order)
        rec = w.I.find_record(cls)
        for n in ((3, 4,) if fixed else ()):
            grid = w.need_grid(w.grid_values(n))
            for wa in windows(n):
                for wb in windows(n):
                    src = w.spline_on("a", order, grid, *wa)
                    before = spline_view(w, src)
                    o = w.run(lambda: w.I.memberwise(src, move=True), "Spline(Spline&&)")
                    okv, why = valid_spline(w, src, n)
                    v = spline_view(w, src)
                    ok = o.kind == "val" and okv and v[2] == 0 and valid_spline(w, o.v, n)[0] and \
                        same_window(spline_view(w, o.v)[0], wa)
                    any_f = w.method(cls, "getSupport", 0)
                    cs.expect(any_f, "a moved-from spline is a valid interval-free spline; the target holds the value",
                              dict(order=order, n=n, source=wa), o, ok, "valid target, empty source (%s)" % why)
                    src = w.spline_on("a", order, grid, *wa)
                    dst = w.spline_on("b", order, grid, *wb)
                    o = w.run(lambda: w.I.assign_memberwise(dst, src, move=True), "Spline::operator=(Spline&&)")
                    okv, why = valid_spline(w, src, n)
                    ok = o.kind == "val" and okv and spline_view(w, src)[2] == 0 and valid_spline(w, dst, n)[0] and \
                        same_window(spline_view(w, dst)[0], wa)
                    cs.expect(any_f, "move assignment of a spline leaves both objects valid; source interval-free",
                              dict(order=order, n=n, source=wa, target=wb), o, ok, "valid target and source (%s)" % why)
                    if wa == wb:
                        s3 = w.spline_on("a", order, grid, *wa)
                        o = w.run(lambda: w.I.assign_memberwise(s3, s3, move=True), "s = std::move(s)")
                        okv, why = valid_spline(w, s3, n)
                        cs.expect(any_f, "self move-assignment of a spline leaves a valid spline (libstdc++: the "
                                         "coefficient vector ends up empty)", dict(order=order, n=n, window=wa), o,
                                  o.kind == "val" and okv, "a valid spline (%s)" % why)
    return cs.flush()


def _same_grid(w, sup, grid):
    g = w.grid_of(sup)
    return g is not None and w.grid_points(g) is not None and [x.v for x in w.grid_points(g)] == [
        x.v for x in w.grid_points(grid)]


# ------------------------------------------------------------------------------------------------
# C03 / C14 / C10: arithmetic framing
# ------------------------------------------------------------------------------------------------
def _expect_coeffs(view, n, spec, order_out, lin_spec=None, mono_spec=None):
    """Compare every coefficient of the result with the dependence specification.
    spec(I, p) -> frozenset of atoms the coefficient of x^p on absolute interval I must depend on
    (empty set: the coefficient must be the constant zero).  Intervals outside the result's support are
    zero by definition of the spline."""
    (s, e), table, ncoef, _ = view
    for I in range(0, n - 1):
        arr = table.get(I)
        for p in range(order_out + 1):
            want = spec(I, p)
            if arr is None:
                if want:
                    return False, "interval %d is outside the result's support but should depend on %s" % (
                        I, sorted(want)[:3])
                continue
            if p >= len(arr):
                return False, "result array too short"
            x = arr[p]
            if not isinstance(x, Sc):
                return False, "coefficient %d of interval %d is %r" % (p, I, x)
            if x.deps != want:
                return False, "coefficient of x^%d on interval %d depends on %s, specified %s" % (
                    p, I, sorted(x.deps)[:6], sorted(want)[:6])
            if not want and x.v != 0:
                return False, "coefficient of x^%d on interval %d should be exactly zero" % (p, I)
            if mono_spec is not None and x.mono is not None:
                wm = mono_spec(I, p)
                if wm is not None and x.mono != wm:
                    from .r_reg_ops import _fmt_mono
                    return False, "coefficient of x^%d on interval %d is a sum of the products %s, specified %s" % (
                        p, I, _fmt_mono(x.mono), _fmt_mono(wm))
            if lin_spec is not None:
                wl = lin_spec(I, p)
                got = x.form()
                if wl is not None and got is not None and got != {k: q for k, q in wl.items() if q != 0}:
                    return False, "coefficient of x^%d on interval %d is the combination %s, specified %s" % (
                        p, I, _fmt_lin(got), _fmt_lin(wl))
    return True, ""


def _fmt_lin(l):
    return " + ".join("%s*%s" % (q, "1" if k is None else "%s%s" % (k[1], list(k[2:]))) for k, q in sorted(
        l.items(), key=lambda kv: str(kv[0]))) or "0"


def arithmetic_suite(chk, w, rule, nmax, order_pairs=((1, 1), (2, 1), (1, 2), (0, 2), (3, 0)), ns=None, fixed=True):
    cs = Cases(chk, rule, w)
    T = w.T
    for (A, B) in order_pairs:
        clsA = w.spline_cls(A)
        pb = lambda d: ("Spline<%s, %d>" % (T, B)) in d["params"][0]["type"] and "&&" not in d["params"][0]["type"]
        # overloads taking the right operand as an rvalue (none on the reference tree): evaluated like their const&
        # siblings, and the moved-from argument must stay a valid object (C10: "a moved-from spline is a valid interval-free
        # object"; C03: the result is the same function)
        prv = lambda d: ("Spline<%s, %d>" % (T, B)) in d["params"][0]["type"] and "&&" in d["params"][0]["type"]
        rvalue_overloads = [(nm_, f_) for nm_ in ("operator*", "operator+", "operator-", "operator+=", "operator-=")
                            for f_ in w.I.find_methods(clsA, nm_, 1, prv)]
        fmul = w.method(clsA, "operator*", 1, pred=pb)
        fadd = w.method(clsA, "operator+", 1, pred=pb)
        fsub = w.method(clsA, "operator-", 1, pred=pb)
        fpe = w.method(clsA, "operator+=", 1, pred=pb, required=False) if B <= A else None
        fme = w.method(clsA, "operator-=", 1, pred=pb, required=False) if B <= A else None
        fas = w.method(clsA, "operator=", 1, pred=pb, required=False) if B < A else None
        for n in _ns(3, nmax, ns):
            grid = w.need_grid(w.grid_values(n))
            grid2 = w.need_grid(w.grid_values(n))
            for wa in windows(n):
                for wb in windows(n):
                    for glabel, gb in (("same-object", grid), ("equal-distinct-object", grid2)):
                        if glabel != "same-object" and (wa[0] + wb[1]) % 3 != 0:
                            continue  # distinct-object grids: a third of the placements is enough
                        ina = lambda I: wa[0] <= I and I + 1 < wa[1]
                        inb = lambda I: wb[0] <= I and I + 1 < wb[1]
                        case = dict(orders=(A, B), n=n, a=wa, b=wb, grids=glabel)

                        def fresh():
                            return w.spline_on("a", A, grid, *wa), w.spline_on("b", B, gb, *wb)

                        def check(f, clause, o, a, b, sa, sb, spec, order_out, res=None, target_changes=False,
                                  lin=None, mono=None):
                            ok, why = False, ""
                            if o.kind == "val":
                                r = res if res is not None else val(o.v)
                                if isinstance(r, Obj):
                                    okv, why = valid_spline(w, r, n)
                                    if okv:
                                        ok, why = _expect_coeffs(spline_view(w, r), n, spec, order_out, lin, mono)
                            else:
                                why = repr(o)
                            if ok and not target_changes and snap(a) != sa:
                                ok, why = False, "left operand was modified"
                            if ok and snap(b) != sb:
                                ok, why = False, "right operand was modified"
                            cs.expect(f, clause, case, o, ok, "specified dependence per interval and power (%s)" % why)

                        # product
                        a, b = fresh()
                        sa, sb = snap(a), snap(b)
                        o = w.call(fmul, a, [box(b)])
                        check(fmul, "a*b: coefficient k on interval I is built from a_j(I)*b_{k-j}(I), zero elsewhere",
                              o, a, b, sa, sb,
                              lambda I, p: frozenset(
                                  x for j in range(A + 1) if 0 <= p - j <= B for x in
                                  (("c", "a", I, j), ("c", "b", I, p - j))) if (ina(I) and inb(I)) else frozenset(),
                              A + B,
                              mono=lambda I, p: frozenset(
                                  (("c", "a", I, j), ("c", "b", I, p - j)) for j in range(A + 1) if 0 <= p - j <= B)
                              if (ina(I) and inb(I)) else frozenset())
                        # sum / difference
                        addspec = lambda I, p: frozenset(
                            ([("c", "a", I, p)] if ina(I) and p <= A else []) +
                            ([("c", "b", I, p)] if inb(I) and p <= B else []))
                        def linspec(sign):
                            return lambda I, p: dict(
                                ([(("c", "a", I, p), 1)] if ina(I) and p <= A else []) +
                                ([(("c", "b", I, p), sign)] if inb(I) and p <= B else []))

                        for f, nm, sg in ((fadd, "a+b", 1), (fsub, "a-b", -1)):
                            a, b = fresh()
                            sa, sb = snap(a), snap(b)
                            o = w.call(f, a, [box(b)])
                            check(f, "%s: coefficient k on interval I is a_k(I) %s b_k(I) where supported, zero "
                                     "elsewhere" % (nm, "+" if sg > 0 else "-"), o, a, b, sa, sb, addspec, max(A, B),
                                  lin=linspec(sg))
                        for f, nm, sg in ((fpe, "a+=b", 1), (fme, "a-=b", -1)):
                            if f is None:
                                continue
                            a, b = fresh()
                            sa, sb = snap(a), snap(b)
                            o = w.call(f, a, [box(b)])
                            check(f, "%s: the target denotes the sum/difference afterwards; b unchanged" % nm, o, a, b,
                                  sa, sb, addspec, A, res=a, target_changes=True, lin=linspec(sg))
                        for opname, f in rvalue_overloads:
                            a, b = fresh()
                            sa = snap(a)
                            o = w.call(f, a, [box(b)])
                            inplace = opname.endswith("=")
                            if opname == "operator*":
                                spec_ = lambda I, p: frozenset(
                                    x for j in range(A + 1) if 0 <= p - j <= B for x in
                                    (("c", "a", I, j), ("c", "b", I, p - j))) if (ina(I) and inb(I)) else frozenset()
                                oo, lin_ = A + B, None
                            else:
                                spec_, oo = addspec, (A if inplace else max(A, B))
                                lin_ = linspec(1 if "+" in opname else -1)
                            # the argument may have been moved from: it must still be a valid spline (checked below), its
                            # value is unspecified - compare the result only
                            check(f, "%s(rvalue operand): the result is the same function as with a const operand" % opname,
                                  o, a, b, sa, snap(b), spec_, oo, res=(a if inplace else None), target_changes=inplace,
                                  lin=lin_)
                            okb, whyb = valid_spline(w, b, n)
                            cs.expect(f, "%s(rvalue operand): the moved-from argument is still a valid spline "
                                         "(one coefficient array per interval of its support)" % opname, case, o,
                                      okb or o.kind != "val", "(%s)" % whyb)
                        if fas is not None:
                            a, b = fresh()
                            sa, sb = snap(a), snap(b)
                            o = w.call(fas, a, [box(b)])
                            check(fas, "assignment from a lower order preserves the function", o, a, b, sa, sb,
                                  lambda I, p: frozenset([("c", "b", I, p)] if inb(I) and p <= B else []), A, res=a,
                                  target_changes=True,
                                  lin=lambda I, p: dict([(("c", "b", I, p), 1)] if inb(I) and p <= B else []))
                    # the same object as both operands (aliasing): a+a = 2a, a-a = 0, a+=a, a-=a
                    if A == B:
                        ina = lambda I: wa[0] <= I and I + 1 < wa[1]
                        case = dict(orders=(A, A), n=n, a=wa, b="the same object")
                        for f, nm, q, inplace in ((fadd, "a+a", 2, False), (fsub, "a-a", 0, False),
                                                  (fpe, "a+=a", 2, True), (fme, "a-=a", 0, True)):
                            if f is None:
                                continue
                            a = w.spline_on("a", A, grid, *wa)
                            sa = snap(a)
                            o = w.call(f, a, [box(a)])
                            ok, why = False, repr(o)
                            if o.kind == "val":
                                r = a if inplace else val(o.v)
                                if isinstance(r, Obj):
                                    ok, why = valid_spline(w, r, n)
                                    if ok:
                                        ok, why = _expect_coeffs(
                                            spline_view(w, r), n,
                                            lambda I, p: frozenset([("c", "a", I, p)] if ina(I) else []), A,
                                            lambda I, p: ({("c", "a", I, p): q} if ina(I) else {}))
                            if ok and not inplace and snap(a) != sa:
                                ok, why = False, "the operand was modified"
                            cs.expect(f, "%s with one object as both operands gives %s" % (nm, "2a" if q else "zero"),
                                      case, o, ok, "(%s)" % why)
                # history: a spline that was moved from (move assignment into a spline with window wb) is the
                # interval-free zero spline - as an operand it contributes nothing
                if A == B and n <= 4:
                    for wb in windows(n):
                        if (wa[0] + 2 * wb[1]) % 2:
                            continue
                        y = w.spline_on("a", A, grid, *wa)
                        tgt = w.spline_on("t", A, grid, *wb)
                        om = w.run(lambda: w.I.assign_memberwise(tgt, y, move=True), "Spline::operator=(Spline&&)")
                        if om.kind != "val":
                            continue
                        for wc in (wb, (0, n)):
                            b = w.spline_on("b", A, grid, *wc)
                            inb = lambda I: wc[0] <= I and I + 1 < wc[1]
                            case = dict(orders=(A, A), n=n, moved_from=wa, its_target_was=wb, b=wc)
                            for f, nm, first in ((fadd, "moved+b", True), (fadd, "b+moved", False),
                                                 (fmul, "moved*b", True)):
                                l, r = (y, b) if first else (b, y)
                                o = w.call(f, l, [box(r)])
                                ok, why = False, repr(o)
                                if o.kind == "val" and isinstance(val(o.v), Obj):
                                    ok, why = valid_spline(w, val(o.v), n)
                                    if ok:
                                        spec = (lambda I, p: frozenset()) if f is fmul else (
                                            lambda I, p: frozenset([("c", "b", I, p)] if inb(I) and p <= A else []))
                                        ok, why = _expect_coeffs(spline_view(w, val(o.v)), n, spec,
                                                                 2 * A if f is fmul else A)
                                cs.expect(f, "%s: a moved-from operand acts as the zero spline" % nm, case, o, ok,
                                          "(%s)" % why)
        # differing grids: refused, nothing changed
        for n in ((3, 4,) if fixed else ()):
            grid = w.need_grid(w.grid_values(n))
            for label, vals in different_grids(w, n):
                gd = w.mk_grid(vals)
                if gd.kind != "val":
                    continue
                nd = len(vals)
                for wa in [(0, 0), (0, 1), (0, n), (1, n)]:
                    for wb in [(0, 0), (0, nd), (nd - 2, nd), (nd - 1, nd)]:
                        if wb[1] > nd or wb[0] < 0:
                            continue
                        for f, nm in ((fmul, "a*b"), (fadd, "a+b"), (fsub, "a-b"), (fpe, "a+=b"), (fme, "a-=b")):
                            if f is None:
                                continue
                            a = w.spline_on("a", A, grid, *wa)
                            b = w.spline_on("b", B, gd.v, *wb)
                            sa, sb = snap(a), snap(b)
                            o = w.call(f, a, [box(b)])
                            ok = o.throws_lib("DIFFERING_GRIDS") and snap(a) == sa and snap(b) == sb
                            cs.expect(f, "%s across different grids throws DIFFERING_GRIDS and leaves both operands "
                                         "unchanged" % nm, dict(orders=(A, B), n=n, a=wa, b=wb, other_grid=label), o,
                                      ok, "throws BSplineException(DIFFERING_GRIDS), operands unchanged")
    return cs.flush()


def scalar_suite(chk, w, rule, nmax, orders=(0, 2), ns=None, fixed=True):
    cs = Cases(chk, rule, w)
    T = w.T
    for A in orders:
        cls = w.spline_cls(A)
        isT = lambda d: d["params"][0]["type"].replace("const ", "").strip(" &") == T
        fm = w.method(cls, "operator*", 1, pred=isT)
        fd = w.method(cls, "operator/", 1, pred=isT)
        fme = w.method(cls, "operator*=", 1, pred=isT)
        fde = w.method(cls, "operator/=", 1, pred=isT)
        fneg = w.method(cls, "operator-", 0)
        ffree = w.free("bspline::operator*", lambda f: len(f.decl["params"]) == 2 and
                       ("Spline<%s, %d>" % (T, A)) in f.decl["params"][1]["type"])
        for n in _ns(2, nmax, ns):
            grid = w.need_grid(w.grid_values(n))
            for wa in windows(n):
                ina = lambda I: wa[0] <= I and I + 1 < wa[1]
                c = Sc.atom(("k",))
                k3 = Sc(3)   # a literal scalar: the scale factor itself is decided
                with_c = lambda I, p: frozenset([("c", "a", I, p), ("k",)]) if ina(I) else frozenset()
                plain = lambda I, p: frozenset([("c", "a", I, p)]) if ina(I) else frozenset()
                scaled = lambda q: (lambda I, p: ({("c", "a", I, p): Fraction(q)} if ina(I) else {}))
                case = dict(order=A, n=n, a=wa)
                # overloads for expiring objects (&&-qualified members, free operators taking Spline&&; none on the reference
                # tree): same result; the consumed object may be changed but must stay a valid spline
                extra = []
                for f_ in w.I.find_methods(cls, "operator*", 1, isT):
                    if f_ is not fm:
                        extra += [(f_, "std::move(a)*c", lambda a: (a, [box(c)]), with_c, "consumed", None),
                                  (f_, "std::move(a)*3", lambda a: (a, [box(k3)]), plain, "consumed", scaled(3))]
                for f_ in w.I.find_methods(cls, "operator/", 1, isT):
                    if f_ is not fd:
                        extra += [(f_, "std::move(a)/c", lambda a: (a, [box(c)]), with_c, "consumed", None),
                                  (f_, "std::move(a)/3", lambda a: (a, [box(k3)]), plain, "consumed",
                                   scaled(Fraction(1, 3)))]
                for f_ in w.I.find_methods(cls, "operator-", 0):
                    if f_ is not fneg:
                        extra += [(f_, "-std::move(a)", lambda a: (a, []), plain, "consumed", scaled(-1))]
                for f_ in w.u.funcs:
                    if (not f_.dependent and f_.pqn == "bspline::operator*" and f_ is not ffree and
                            len(f_.decl["params"]) == 2 and ("Spline<%s, %d>" % (T, A)) in f_.decl["params"][1]["type"]):
                        extra += [(f_, "3*std::move(a)", lambda a: (None, [box(k3), box(a)]), plain, "consumed", scaled(3)),
                                  (f_, "c*std::move(a)", lambda a: (None, [box(c), box(a)]), with_c, "consumed", None)]
                for f, nm, args, spec, inplace, lin in tuple(extra) + (
                        (fm, "a*c", lambda a: (a, [box(c)]), with_c, False, None),
                        (fd, "a/c", lambda a: (a, [box(c)]), with_c, False, None),
                        (fme, "a*=c", lambda a: (a, [box(c)]), with_c, True, None),
                        (fde, "a/=c", lambda a: (a, [box(c)]), with_c, True, None),
                        (fm, "a*3", lambda a: (a, [box(k3)]), plain, False, scaled(3)),
                        (fd, "a/3", lambda a: (a, [box(k3)]), plain, False, scaled(Fraction(1, 3))),
                        (fme, "a*=3", lambda a: (a, [box(k3)]), plain, True, scaled(3)),
                        (fde, "a/=3", lambda a: (a, [box(k3)]), plain, True, scaled(Fraction(1, 3))),
                        (ffree, "3*a", lambda a: (None, [box(k3), box(a)]), plain, False, scaled(3)),
                        (fneg, "-a", lambda a: (a, []), plain, False, scaled(-1)),
                        (ffree, "c*a", lambda a: (None, [box(c), box(a)]), with_c, False, None)):
                    a = w.spline_on("a", A, grid, *wa)
                    sa = snap(a)
                    this, argv = args(a)
                    o = w.call(f, this, argv)
                    ok, why = False, repr(o)
                    consumed = inplace == "consumed"
                    inplace = inplace is True
                    if o.kind == "val":
                        r = a if inplace else val(o.v)
                        if isinstance(r, Obj):
                            ok, why = valid_spline(w, r, n)
                            if ok and consumed:
                                ok, why = valid_spline(w, a, n)
                                why = "the consumed object: " + why if not ok else why
                            if ok:
                                with_k = spec is with_c
                                ok, why = _expect_coeffs(
                                    spline_view(w, r), n, spec, A, lin,
                                    lambda I, p: (frozenset([tuple(sorted([("c", "a", I, p)] + ([("k",)] if with_k
                                                                                               else [])))])
                                                  if ina(I) else frozenset()))
                                if ok and same_window(spline_view(w, r)[0], wa) is False:
                                    ok, why = False, "support changed"
                    if ok and not inplace and not consumed and snap(a) != sa:
                        ok, why = False, "operand was modified"
                    cs.expect(f, "%s scales every coefficient of every interval of a by that factor (and nothing else)" % nm,
                              case, o, ok, "specified dependence (%s)" % why)
                # the scalar is a reference to one of the spline's own coefficients (aliasing): every coefficient is
                # scaled by the value that coefficient had BEFORE the operation
                nint = max(wa[1] - wa[0], 1) - 1
                if nint >= 1:
                    for f, nm in ((fme, "a*=a_ij"), (fde, "a/=a_ij"), (fm, "a*a_ij"), (fd, "a/a_ij")):
                        for (ii, jj) in {(0, 0), (nint - 1, A), (0, A)}:
                            a = w.spline_on("a", A, grid, *wa)
                            cv = val(w.mcall(a, "getCoefficients").v)
                            ref = LV(cv.items[ii].items, jj)
                            alias_atom = ("c", "a", wa[0] + ii, jj)
                            o = w.call(f, a, [ref])
                            inplace = nm[1] in "*/" and nm[2] == "="
                            ok, why = False, repr(o)
                            if o.kind == "val":
                                r = a if inplace else val(o.v)
                                if isinstance(r, Obj):
                                    ok, why = valid_spline(w, r, n)
                                    if ok and nm.startswith("a*"):
                                        ok, why = _expect_coeffs(
                                            spline_view(w, r), n,
                                            lambda I, p: frozenset([("c", "a", I, p), alias_atom]) if ina(I)
                                            else frozenset(), A, None,
                                            lambda I, p: frozenset([tuple(sorted([("c", "a", I, p), alias_atom]))])
                                            if ina(I) else frozenset())
                                    elif ok:
                                        ok, why = _expect_coeffs(
                                            spline_view(w, r), n,
                                            lambda I, p: frozenset([("c", "a", I, p), alias_atom]) if ina(I)
                                            else frozenset(), A)
                                        if ok:
                                            # division: the divisor is the ORIGINAL coefficient for every entry, so no
                                            # entry other than the aliased one may have become the constant 1
                                            view = spline_view(w, r)[1]
                                            ones = [(I, p) for I, arr in view.items() for p, x in enumerate(arr)
                                                    if isinstance(x, Sc) and x.v == 1 and (I, p) != (wa[0] + ii, jj)]
                                            if ones:
                                                ok, why = False, "coefficient %s became 1" % (ones[0],)
                            cs.expect(f, "%s with the scalar referring to one of a's own coefficients scales every "
                                         "coefficient by that coefficient's original value" % nm,
                                      dict(order=A, n=n, a=wa, scalar="a[%d][%d]" % (ii, jj)), o, ok, "(%s)" % why)
    return cs.flush()


def lincomb_suite(chk, w, rule, nmax, order=1, ns=None, fixed=True):
    cs = Cases(chk, rule, w)
    T = w.T
    fcoll = w.free("bspline::linearCombination", lambda f: len(f.decl["params"]) == 2 and
                   ("Spline<%s, %d>" % (T, order)) in f.decl["params"][1]["type"])
    fiter = w.free("bspline::linearCombination", lambda f: len(f.decl["params"]) == 4 and
                   ("Spline<%s, %d>" % (T, order)) in f.decl["params"][2]["type"])
    for n in _ns(3, nmax, ns):
        grid = w.need_grid(w.grid_values(n))
        ws = windows(n)
        combos = [(a,) for a in ws] + [(a, b) for a in ws for b in ws]
        if n <= 4:
            combos += [(a, b, c) for a in ws for b in ws for c in ws]
        else:
            sel = [x for x in ws if x[1] - x[0] in (0, 1, 2, n)][:6]
            combos += [(a, b, c) for a in sel for b in ws[::2] for c in sel]
        for wins in combos:
            names = ["s%d" % i for i in range(len(wins))]
            splines = Vec([w.spline_on(nm, order, grid, *wn) for nm, wn in zip(names, wins)])
            ks = Vec([Sc.atom(("k", i)) for i in range(len(wins))])
            before = snap(splines)

            def spec(I, p):
                out = set()
                for i, wn in enumerate(wins):
                    if wn[0] <= I and I + 1 < wn[1]:
                        out.add(("c", names[i], I, p))
                        out.add(("k", i))
                return frozenset(out)

            def mspec(I, p):
                return frozenset(tuple(sorted([("c", names[i], I, p), ("k", i)])) for i, wn in enumerate(wins)
                                 if wn[0] <= I and I + 1 < wn[1])

            case = dict(order=order, n=n, windows=list(wins))
            for f, argv in ((fcoll, [box(ks), box(splines)]),
                            (fiter, [Iter(ks, 0), Iter(ks, len(wins)), Iter(splines, 0), Iter(splines, len(wins))])):
                o = w.call(f, None, argv)
                ok, why = False, repr(o)
                if o.kind == "val" and isinstance(val(o.v), Obj):
                    r = val(o.v)
                    ok, why = valid_spline(w, r, n)
                    if ok:
                        ok, why = _expect_coeffs(spline_view(w, r), n, spec, order, None, mspec)
                if ok and snap(splines) != before:
                    ok, why = False, "an operand was modified"
                cs.expect(f, "linearCombination: coefficient k on interval I is built from c_i and S_i's coefficient k "
                             "on I for every S_i supported there, zero elsewhere", case, o, ok,
                          "specified dependence (%s)" % why)
        # the value: literal coefficients 2, -3, 5 - every result coefficient is exactly sum_i k_i * S_i's coefficient
        kv = [2, -3, 5]
        for wins in (combos if n <= 3 else [c_ for c_ in combos if len(c_) <= 2]):
            names = ["s%d" % i for i in range(len(wins))]
            splines = Vec([w.spline_on(nm, order, grid, *wn) for nm, wn in zip(names, wins)])
            ks = Vec([Sc(kv[i]) for i in range(len(wins))])
            spec = lambda I, p: frozenset(("c", names[i], I, p) for i, wn in enumerate(wins) if wn[0] <= I and I + 1 < wn[1])
            lspec = lambda I, p: {("c", names[i], I, p): kv[i] for i, wn in enumerate(wins) if wn[0] <= I and I + 1 < wn[1]}
            case = dict(order=order, n=n, windows=list(wins), coefficients=kv[:len(wins)])
            for f, argv in ((fcoll, [box(ks), box(splines)]),
                            (fiter, [Iter(ks, 0), Iter(ks, len(wins)), Iter(splines, 0), Iter(splines, len(wins))])):
                o = w.call(f, None, argv)
                ok, why = False, repr(o)
                if o.kind == "val" and isinstance(val(o.v), Obj):
                    ok, why = valid_spline(w, val(o.v), n)
                    if ok:
                        ok, why = _expect_coeffs(spline_view(w, val(o.v)), n, spec, order, lspec, None)
                cs.expect(f, "linearCombination with literal coefficients: every result coefficient is exactly sum_i k_i times "
                             "S_i's coefficient of the same interval and power", case, o, ok, "(%s)" % why)
        # argument checks (C11): equally many (at least one) coefficients and splines
        for nc in range(0, 4):
            for ns in range(0, 4):
                splines = Vec([w.spline_on("s%d" % i, order, grid, 0, n) for i in range(ns)])
                ks = Vec([Sc.atom(("k", i)) for i in range(nc)])
                good = nc == ns and nc >= 1
                for f, argv in ((fcoll, [box(ks), box(splines)]),
                                (fiter, [Iter(ks, 0), Iter(ks, nc), Iter(splines, 0), Iter(splines, ns)])):
                    o = w.call(f, None, argv)
                    cs.expect(f, "linearCombination accepts exactly equally many (>=1) coefficients and splines",
                              dict(n=n, coefficients=nc, splines=ns), o,
                              (o.kind == "val") if good else o.throws_lib(),
                              "a spline" if good else "throws BSplineException")
        # differing grids anywhere in the collection
        for label, vals in different_grids(w, n)[:4]:
            gd = w.mk_grid(vals)
            if gd.kind != "val":
                continue
            nd = len(vals)
            for pos in range(3):
                for wbad in ((0, 0), (0, nd)):
                    sp = [w.spline_on("s%d" % i, order, grid, 0, n) for i in range(3)]
                    sp[pos] = w.spline_on("bad", order, gd.v, *wbad)
                    splines = Vec(sp)
                    ks = Vec([Sc.atom(("k", i)) for i in range(3)])
                    o = w.call(fcoll, None, [box(ks), box(splines)])
                    cs.expect(fcoll, "a collection containing a spline on a different grid is refused with "
                                     "DIFFERING_GRIDS", dict(n=n, other_grid=label, position=pos, window=wbad), o,
                              o.throws_lib("DIFFERING_GRIDS"), "throws BSplineException(DIFFERING_GRIDS)")
    return cs.flush()
