"""Fact base: runs the extractor (cached by content hash of everything it reads)
and loads the result into indexed Python structures.

Nothing in here decides a property; it only turns /repo's current source into
resolved, type-checked facts (statement trees, CFGs, declaration table)."""
import fcntl
import hashlib
import json
import os
import shutil
import subprocess
import sys
import time
from concurrent.futures import ThreadPoolExecutor

from . import config as C


class AnalysisBroken(Exception):
    """Exit code 2: the analysis itself could not be carried out."""


class ExtractError(AnalysisBroken):
    def __init__(self, unit, stderr):
        super().__init__("unit %s does not parse:\n%s" % (unit, stderr))
        self.unit = unit
        self.stderr = stderr


# ---------------------------------------------------------------------------
# content hash of everything the extractor can read
# ---------------------------------------------------------------------------
_tree_hash = None


def _hash_tree():
    global _tree_hash
    if _tree_hash is not None:
        return _tree_hash
    h = hashlib.sha256()
    h.update(C.REPO.encode())
    roots = [os.path.join(C.REPO, d) for d in ("include", "examples", "readme", "tests")] + [C.DRIVERS]
    files = []
    for r in roots:
        for dp, dn, fn in os.walk(r):
            dn.sort()
            for f in sorted(fn):
                if f.endswith((".png", ".py")):
                    continue
                files.append(os.path.join(dp, f))
    for extra in ("CMakeLists.txt",):
        p = os.path.join(C.REPO, extra)
        if os.path.exists(p):
            files.append(p)
    files.append(C.TOOL)
    for p in files:
        h.update(p.encode())
        try:
            with open(p, "rb") as fh:
                h.update(hashlib.sha256(fh.read()).digest())
        except OSError:
            h.update(b"<unreadable>")
    _tree_hash = h.hexdigest()[:24]
    return _tree_hash


def tree_hash():
    return _hash_tree()


def _resource_dir():
    try:
        return subprocess.run(["clang++", "-print-resource-dir"], capture_output=True, text=True,
                              check=True).stdout.strip()
    except Exception:
        return "/usr/lib/llvm-14/lib/clang/14.0.6"


def cache_dir():
    d = os.path.join(C.CACHE, _hash_tree())
    os.makedirs(d, exist_ok=True)
    return d


def _prune_cache(keep=3):
    try:
        gens = [os.path.join(C.CACHE, g) for g in os.listdir(C.CACHE)]
        gens = [g for g in gens if os.path.isdir(g)]
        gens.sort(key=lambda g: os.path.getmtime(g), reverse=True)
        cur = cache_dir()
        n = 0
        for g in gens:
            if g == cur:
                continue
            n += 1
            if n >= keep and time.time() - os.path.getmtime(g) > 600:
                shutil.rmtree(g, ignore_errors=True)
    except OSError:
        pass


def extract(name, spec=None):
    """Return the path of the JSON fact file of unit `name`, extracting if needed."""
    if spec is None:
        spec = C.units()[name]
    if not os.path.exists(C.TOOL):
        raise AnalysisBroken("extractor %s missing: run bin/setup" % C.TOOL)
    d = cache_dir()
    out = os.path.join(d, name + ".json")
    err = os.path.join(d, name + ".err")
    if os.path.exists(out):
        return out
    lock = open(os.path.join(d, name + ".lock"), "w")
    fcntl.flock(lock, fcntl.LOCK_EX)
    try:
        if os.path.exists(out):
            return out
        if os.path.exists(err):
            raise ExtractError(name, open(err).read())
        tmp = out + ".tmp.%d" % os.getpid()
        cmd = [C.TOOL, "--root=" + C.REPO + "/", "--root=" + C.DRIVERS + "/", "--mode=" + spec["mode"],
               "-o", tmp, spec["src"], "--"] + spec["flags"] + ["-resource-dir", _resource_dir(),
                                                                "-Wno-everything", "-ferror-limit=20"]
        t0 = time.time()
        r = subprocess.run(cmd, capture_output=True, text=True)
        if r.returncode != 0 or not os.path.exists(tmp) or os.path.getsize(tmp) == 0:
            if os.path.exists(tmp):
                os.unlink(tmp)
            msg = (r.stderr or "") + (r.stdout or "")
            # keep every diagnostic line that names an error (they carry the location) plus the tail of the output
            errs = "\n".join(ln for ln in msg.splitlines() if ": error: " in ln or ": fatal error: " in ln)
            msg = (errs + "\n--- tail of the compiler output ---\n" + msg[-5000:]) if errs else msg[-6000:]
            with open(err, "w") as fh:
                fh.write(msg)
            raise ExtractError(name, msg)
        with open(os.path.join(d, name + ".time"), "w") as fh:
            fh.write("%.2f" % (time.time() - t0))
        os.rename(tmp, out)
        return out
    finally:
        fcntl.flock(lock, fcntl.LOCK_UN)
        lock.close()


def extract_many(names):
    """Extract several units in parallel; returns {name: path or ExtractError}."""
    specs = C.units()
    res = {}
    with ThreadPoolExecutor(max_workers=min(16, max(1, len(names)))) as ex:
        futs = {n: ex.submit(extract, n, specs[n]) for n in names}
        for n, f in futs.items():
            try:
                res[n] = f.result()
            except ExtractError as e:
                res[n] = e
    _prune_cache()
    return res


# ---------------------------------------------------------------------------
# loaded structures
# ---------------------------------------------------------------------------
SKIP_KINDS = {"ImplicitCastExpr", "MaterializeTemporaryExpr", "ExprWithCleanups", "CXXBindTemporaryExpr",
              "ParenExpr", "ConstantExpr", "SubstNonTypeTemplateParmExpr", "FullExpr"}


def kids(n):
    return [c for c in n.get("ch", ()) if c is not None]


def walk(n):
    """Pre-order walk over a statement tree."""
    stack = [n]
    while stack:
        x = stack.pop()
        if x is None:
            continue
        yield x
        ch = x.get("ch")
        if ch:
            stack.extend(reversed(ch))


def strip(n):
    """Skip value-preserving wrapper nodes (implicit casts, temporaries, parens)."""
    while n is not None:
        k = n["k"]
        if k in SKIP_KINDS and len(n["ch"]) == 1:
            n = n["ch"][0]
            continue
        if k == "CXXFunctionalCastExpr" and n.get("ck") in ("NoOp", "ConstructorConversion") and len(n["ch"]) == 1:
            n = n["ch"][0]
            continue
        # copy / move construction of a class value from a single argument of the same type:
        # transparent for value provenance (callers that care about copies check "k" before strip)
        break
    return n


class Func:
    __slots__ = ("unit", "id", "decl", "file", "dependent", "body", "inits", "cfg", "_nodes", "_parent",
                 "_blocks")

    def __init__(self, unit, raw):
        self.unit = unit
        self.id = raw["fn"]
        self.decl = unit.decls[self.id]
        self.file = raw["file"]
        self.dependent = raw["dependent"]
        self.body = raw["body"]
        self.inits = raw.get("inits", [])
        self.cfg = raw.get("cfg")
        self._nodes = None
        self._parent = None
        self._blocks = None

    # --- naming -----------------------------------------------------------
    @property
    def qn(self):
        return self.decl["qn"]

    @property
    def name(self):
        return self.decl["name"]

    @property
    def pkey(self):
        return (self.decl["pfile"], self.decl["pline"])

    @property
    def pqn(self):
        return self.decl["pqn"]

    @property
    def line(self):
        return self.decl["line"]

    def where(self):
        return "%s:%d" % (C.rel(self.decl["pfile"]), self.decl["pline"])

    def in_lib(self):
        return C.in_lib(self.decl["pfile"])

    def in_repo(self):
        return C.in_repo(self.decl["pfile"])

    # --- tree indexes -----------------------------------------------------
    def _index(self):
        nodes, parent = {}, {}
        roots = [self.body] + [i["init"] for i in self.inits if i.get("init")]
        for r in roots:
            stack = [(r, None)]
            while stack:
                n, p = stack.pop()
                if n is None:
                    continue
                nodes[n["id"]] = n
                parent[n["id"]] = p
                for c in n.get("ch", ()):
                    if c is not None:
                        stack.append((c, n))
        self._nodes, self._parent = nodes, parent

    @property
    def nodes(self):
        if self._nodes is None:
            self._index()
        return self._nodes

    def parent(self, n):
        if self._parent is None:
            self._index()
        return self._parent.get(n["id"])

    def all_nodes(self):
        for i in self.inits:
            if i.get("init"):
                yield from walk(i["init"])
        yield from walk(self.body)

    def params(self):
        return self.decl["params"]

    def loc(self, n):
        f = n.get("f") or self.file
        return "%s:%d" % (C.rel(f), n.get("l", 0))


class Unit:
    def __init__(self, name, path):
        self.name = name
        self.path = path
        with open(path) as fh:
            raw = json.load(fh)
        self.types = raw["types"]
        self.decls = {d["id"]: d for d in raw["decls"]}
        self.funcs = [Func(self, f) for f in raw["fns"]]
        self.by_id = {f.id: f for f in self.funcs}
        self.mode = raw["mode"]

    def type(self, n):
        t = n.get("t")
        return self.types[t] if t is not None else ""

    def tw(self, n):
        t = n.get("tw")
        return self.types[t] if t is not None else ""

    def decl(self, i):
        return self.decls.get(i)

    def callee(self, n):
        """Resolved callee declaration row of a call / construct expression."""
        k = n["k"]
        if k in ("CXXConstructExpr", "CXXTemporaryObjectExpr"):
            return self.decls.get(n.get("d"))
        c = n.get("callee")
        return self.decls.get(c) if c is not None else None

    def func_of(self, decl_id):
        """Function body for a declaration id (following to the definition)."""
        f = self.by_id.get(decl_id)
        if f is not None:
            return f
        d = self.decls.get(decl_id)
        if d and d.get("def") is not None:
            return self.by_id.get(d["def"])
        return None

    def lib_funcs(self, instantiated=True):
        for f in self.funcs:
            if f.in_lib() and (f.dependent != instantiated):
                yield f


_units = {}


def load(name):
    if name in _units:
        return _units[name]
    p = extract(name)
    u = Unit(name, p)
    _units[name] = u
    return u


def load_many(names, allow_fail=False):
    res = extract_many([n for n in names if n not in _units])
    out = {}
    for n in names:
        if n in _units:
            out[n] = _units[n]
            continue
        r = res[n]
        if isinstance(r, ExtractError):
            if allow_fail:
                out[n] = r
                continue
            raise r
        out[n] = load(n)
    return out


def unit_names(tier=None, modes=("full",), prefix=None):
    tier = tier or C.tier()
    names = []
    for n, s in C.units().items():
        if s["mode"] not in modes:
            continue
        if s["tier"] == "thorough" and tier != "thorough":
            continue
        if prefix and not n.startswith(prefix):
            continue
        names.append(n)
    return names
