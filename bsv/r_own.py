"""R-OWN / R-EFF: ownership, effects, lifetimes (properties C14, C18, part of C09/C10/C20).

Declarative scans over declarations and instantiated bodies of the library."""
import os
import re

from . import config as C
from .ast import CALL_KINDS, CTOR_KINDS, Paths, call_info, getter_table
from .cfg import CFG
from .facts import AnalysisBroken, kids, strip, walk

SOLVER_IFACE = ("bspline::interpolation::internal::ISolver", "ArmadilloSolver", "EigenSolver")


def _lib_records(u, instantiated=True):
    for d in u.decls.values():
        if d["k"] != "rec" or not d.get("complete"):
            continue
        if not C.in_lib(d.get("pfile", "") or d.get("file", "")):
            continue
        if d.get("lambda"):
            continue
        if bool(d.get("dependent")) == instantiated:
            continue
        yield d


def _is_solver(qn):
    return any(s in qn for s in SOLVER_IFACE)


# ------------------------------------------------------------------------------------------------
# 1. statics
# ------------------------------------------------------------------------------------------------
def statics(chk, units):
    rule = "R-EFF.static"
    chk.rule(rule, "library code declares no variable with static or thread storage duration unless it is const / "
                   "constexpr with a type free of mutable members (function-local ones rely on thread-safe "
                   "initialisation, which no unit disables)")
    seen = set()
    for u in units:
        rec_by_qn = {d["qn"]: d for d in u.decls.values() if d["k"] == "rec"}
        for d in u.decls.values():
            if d["k"] != "var" or not C.in_lib(d.get("file", "")):
                continue
            if d.get("sd") not in (2, 3) and not d.get("tls"):
                continue
            key = (d["file"], d["line"], d["name"])
            where = "%s:%d" % (C.rel(d["file"]), d["line"])
            t = d["type"]
            base = t.replace("const ", "").strip(" &")
            rec = rec_by_qn.get(base)
            mut = bool(rec and rec.get("hasMutable"))
            ok = (d.get("constq") or d.get("constexpr") or (d.get("dependent") and t.startswith("const "))) and \
                not mut and not d.get("tls") and d.get("sd") != 2
            if ok:
                if key not in seen:
                    seen.add(key)
                    chk.ok(rule, where, "static '%s' is immutable (%s)" % (d["name"], t[:60]), key=key)
            else:
                chk.bad(rule, where, d.get("qn", d["name"]), "mutable-static:%s" % d["name"],
                        "variable '%s' has static/thread storage duration and is not immutable (type %s): shared "
                        "mutable state reachable from const operations" % (d["name"], t[:80]))
    # build flags
    for fn in ("CMakeLists.txt", "examples/CMakeLists.txt", "tests/CMakeLists.txt", "readme/CMakeLists.txt"):
        p = os.path.join(C.REPO, fn)
        if os.path.exists(p):
            for i, ln in enumerate(open(p), 1):
                if "-fno-threadsafe-statics" in ln:
                    chk.bad(rule, "%s:%d" % (fn, i), "(build flags)", "no-threadsafe-statics",
                            "the build disables thread-safe initialisation of function-local statics")
    return len(seen)


# ------------------------------------------------------------------------------------------------
# 2. mutable / const-stripping
# ------------------------------------------------------------------------------------------------
def const_correctness(chk, units):
    rule_m = "R-OWN.mutable"
    rule_c = "R-OWN.cast"
    chk.rule(rule_m, "no class of the library has a mutable data member")
    chk.rule(rule_c, "library code contains no const_cast / reinterpret_cast / cast that strips const or "
                     "reinterprets pointers")
    seen = set()
    for u in units:
        for inst in (True, False):
            for d in _lib_records(u, inst):
                for f in d.get("fields", ()):
                    key = (d.get("pfile") or d["file"], f.get("line", d.get("pline")), f["name"])
                    where = "%s:%d" % (C.rel(key[0]), key[1] or 0)
                    if f.get("mutable"):
                        chk.bad(rule_m, where, d.get("pqn", d["qn"]), "mutable:%s" % f["name"],
                                "data member '%s' is mutable: const operations can change the object (state hidden "
                                "from value semantics, data race under concurrent const use)" % f["name"])
                    elif key not in seen:
                        seen.add(key)
                        chk.ok(rule_m, where, "%s::%s is not mutable" % (d.get("pqn", d["qn"]), f["name"]), key=key)
        ncast = 0
        for f in u.funcs:
            if not f.in_lib():
                continue
            for n in f.all_nodes():
                k = n["k"]
                bad = None
                if k in ("CXXConstCastExpr", "CXXReinterpretCastExpr"):
                    bad = k
                elif k in ("CStyleCastExpr", "CXXFunctionalCastExpr", "CXXStaticCastExpr"):
                    ncast += 1
                    if n.get("ck") in ("BitCast", "LValueBitCast", "IntegralToPointer", "PointerToIntegral"):
                        bad = "%s(%s)" % (k, n.get("ck"))
                    elif k == "CStyleCastExpr" and kids(n):
                        src = u.types[kids(n)[0]["t"]] if kids(n)[0].get("t") is not None else ""
                        dst = u.types[n["t"]] if n.get("t") is not None else ""
                        if ("*" in dst or "&" in dst) and "const" in src and "const" not in dst:
                            bad = "C-style cast removing const"
                if bad:
                    chk.bad(rule_c, f.loc(n), f.pqn, "cast:%s" % bad,
                            "%s subverts const-correctness / type safety" % bad, witness=dict(instantiation=f.qn))
        chk.ok(rule_c, "include/bspline", "unit %s: no const-stripping or reinterpreting cast among %d explicit casts" % (
            u.name, ncast), key=("casts", u.name))
    return len(seen)


# ------------------------------------------------------------------------------------------------
# 3. field types
# ------------------------------------------------------------------------------------------------
BAD_FIELD = [
    (re.compile(r"\*\s*(const)?\s*$"), "raw pointer"),
    (re.compile(r"&\s*$"), "reference"),
    (re.compile(r"^std::shared_ptr<(?!const )"), "shared_ptr to non-const"),
    (re.compile(r"^(const )?std::(weak_ptr|unique_ptr|function|reference_wrapper|basic_string_view|span)<"),
     "non-value handle"),
    (re.compile(r"__normal_iterator<|_iterator<"), "iterator"),
]


def field_types(chk, units, only_expression_classes=False):
    rule = "R-OWN.field"
    chk.rule(rule, "data members of library classes are deep-copied values (arithmetic, array, vector, library "
                   "classes) or shared_ptr<const X>: no raw pointer, reference, shared_ptr to non-const, "
                   "std::function, iterator or view members (copies share nothing mutable; expression objects own "
                   "their operands)")
    seen = {}
    for u in units:
        for d in _lib_records(u, True):
            if _is_solver(d["qn"]) or d.get("local"):
                continue
            if only_expression_classes and not d["qn"].startswith(("bspline::operators::", "bspline::integration::")):
                continue
            for f in d.get("fields", ()):
                t = f["type"]
                key = (d.get("pfile"), d.get("pline"), f["name"])
                where = "%s:%d" % (C.rel(d.get("pfile") or d["file"]), f.get("line") or d.get("pline") or 0)
                bad = None
                for rx, what in BAD_FIELD:
                    if rx.search(t):
                        bad = what
                        break
                if bad:
                    chk.bad(rule, where, d.get("pqn", d["qn"]), "field:%s:%s" % (f["name"], bad.replace(" ", "-")),
                            "member '%s' of %s has type %s (%s): the object does not own / deep-copy this state" % (
                                f["name"], d["qn"][:90], t[:80], bad), witness=dict(instantiation=d["qn"]))
                else:
                    seen.setdefault(key, 0)
                    seen[key] += 1
    for key, n in sorted(seen.items(), key=lambda kv: (str(kv[0][0]), kv[0][1] or 0, kv[0][2])):
        chk.ok(rule, "%s:%s" % (C.rel(key[0] or ""), key[1]), "member %s: value type in %d instantiation(s)" % (key[2], n),
               key=key)
    return len(seen)


def expression_members(chk, units):
    return field_types(chk, units, only_expression_classes=True)


# ------------------------------------------------------------------------------------------------
# 4. interface shape
# ------------------------------------------------------------------------------------------------
ASSIGN_OPS = {"=", "+=", "-=", "*=", "/="}


def interface_shape(chk, units):
    rule = "R-OWN.iface"
    chk.rule(rule, "public member functions other than (compound) assignment operators, constructors and destructors "
                   "are const or static; no public function returns a non-const reference, pointer or mutable "
                   "iterator; free functions take library objects by const& or by value")
    seen = set()
    for u in units:
        for d in u.decls.values():
            if d["k"] != "fn" or not C.in_lib(d.get("pfile", "")) or d.get("dependent"):
                continue
            if d.get("implicit") or d.get("lambdaop") or d.get("deleted"):
                continue
            if d.get("kind") == "CXXDeductionGuide":
                continue
            recqn = d.get("recqn", "")
            if _is_solver(recqn) or _is_solver(d["qn"]):
                continue
            key = (d["pfile"], d["pline"])
            where = "%s:%d" % (C.rel(d["pfile"]), d["pline"])
            rt = d.get("rtype", "")
            problems = []
            if d.get("record") is not None:
                if d.get("access") != "public":
                    continue
                if recqn.startswith("bspline::exceptions::"):
                    continue
                if "::internal::" in recqn:
                    continue   # helper classes of the implementation (accumulators, builders) are not API value types
                is_assign = d.get("op") in ASSIGN_OPS
                # an &&-qualified member can only be called on an expiring object (temporary / std::move): consuming it is
                # not a mutation of a named operand
                if not (d.get("ctor") or d.get("dtor") or d.get("const") or d.get("static") or is_assign or
                        d.get("refq") == 2):
                    problems.append("public non-const member function that is not an assignment operator")
                if rt.endswith("&") and not rt.startswith("const ") and not is_assign:
                    problems.append("returns a non-const reference (%s)" % rt[:60])
                if rt.endswith("*") and "const" not in rt:
                    problems.append("returns a pointer to non-const (%s)" % rt[:60])
                if "__normal_iterator<" in rt and "__normal_iterator<const " not in rt:
                    problems.append("returns a mutable iterator")
            else:
                for p in d["params"]:
                    t = p["type"]
                    if ("bspline::" in t) and t.endswith("&") and not t.endswith("&&") and not t.startswith("const ") \
                            and "const" not in t.split("<")[0]:
                        problems.append("takes %s by non-const reference" % t[:60])
                if rt.endswith("&") and not rt.startswith("const ") and "bspline::" in rt:
                    # OperatorSum::add returns a reference to one of its (local) arguments: not a library object
                    problems.append("returns a non-const reference (%s)" % rt[:60])
            if problems:
                chk.bad(rule, where, d["pqn"], "iface:" + problems[0].split("(")[0].strip().replace(" ", "-")[:40],
                        "%s: %s" % (d["pqn"], "; ".join(problems)), witness=dict(instantiation=d["qn"]))
            elif key not in seen:
                seen.add(key)
                chk.ok(rule, where, "%s: does not expose or mutate state" % d["pqn"], key=key)
    return len(seen)


# ------------------------------------------------------------------------------------------------
# 5. commit-last
# ------------------------------------------------------------------------------------------------
THROWING_STD = {"at", "value"}


class Throws:
    def __init__(self, u):
        self.u = u
        self.memo = {}

    def may_throw(self, f, depth=0):
        if f.id in self.memo:
            return self.memo[f.id]
        self.memo[f.id] = False
        r = False
        for n in f.all_nodes():
            if n["k"] == "CXXThrowExpr":
                r = True
                break
            ci = call_info(self.u, n) if (n["k"] in CALL_KINDS or n["k"] in CTOR_KINDS) else None
            if ci is None or ci.decl is None:
                continue
            if self.call_may_throw(ci, depth):
                r = True
                break
        self.memo[f.id] = r
        return r

    def call_may_throw(self, ci, depth=0):
        d = ci.decl
        callee = self.u.func_of(d["id"])
        if callee is not None and callee.in_repo():
            return depth < 25 and self.may_throw(callee, depth + 1)
        # std calls: .at() / .value() can throw only on an index / emptiness bug, which the region evaluator
        # decides separately; counting them here would flag behaviour-preserving rewrites (a loop over valid
        # indices written with .at()).  Commit-last is about the library's own refusals.
        return False


def commit_last(chk, units):
    rule = "R-OWN.commit"
    chk.rule(rule, "in every non-const member function no call that may throw the library's exception (reaches a "
                   "throw expression through the resolved call graph) is reachable after the first write to the object: "
                   "a refused in-place operation leaves its target unchanged")
    seen = set()
    for u in units:
        thr = Throws(u)
        getters = getter_table(u)
        for f in u.funcs:
            d = f.decl
            if f.dependent or not f.in_lib() or f.cfg is None or d.get("record") is None:
                continue
            if d.get("const") or d.get("static") or d.get("ctor") or d.get("dtor") or d.get("lambdaop"):
                continue
            if _is_solver(d.get("recqn", "")) or d.get("recqn", "").startswith("bspline::exceptions::"):
                continue
            g = CFG(f)
            P = Paths(u, f, getters)
            writes, throws = [], []
            for b in g.blocks:
                for i, n in enumerate(g.elements(b)):
                    w = _is_write(u, f, n, P)
                    ci = call_info(u, n) if (n["k"] in CALL_KINDS or n["k"] in CTOR_KINDS) else None
                    t = ci is not None and ci.decl is not None and thr.call_may_throw(ci)
                    if n["k"] == "CXXThrowExpr":
                        t = True
                    if w:
                        writes.append((b, i, n))
                    if t:
                        throws.append((b, i, n))
            bad = None
            for (wb, wi, wn) in writes:
                after = g.reachable(start=wb)
                loop = wb in {s for x in after if x != wb or True for s in g.succ[x]} and \
                    g.path(g.succ[wb][0], wb) is not None if g.succ[wb] else False
                for (tb, ti, tn) in throws:
                    if tn is wn:
                        continue
                    later = (tb == wb and ti > wi) or (tb != wb and tb in after) or (tb == wb and loop)
                    if later:
                        bad = (wn, tn)
                        break
                if bad:
                    break
            key = f.pkey
            if bad:
                wn, tn = bad
                chk.bad(rule, f.loc(tn), f.pqn, "throw-after-write",
                        "a call that may throw (line %s) is reachable after the object was already written (line %s): "
                        "if it throws, the target is left modified" % (tn.get("l"), wn.get("l")),
                        witness=dict(instantiation=f.qn, unit=u.name, write_line=wn.get("l"), throw_line=tn.get("l")))
            elif key not in seen:
                seen.add(key)
                chk.ok(rule, f.where(), "%s: %d write(s), %d possibly-throwing call(s), none after a write" % (
                    f.pqn, len(writes), len(throws)), key=key)
    return len(seen)


def _is_write(u, f, n, P):
    """Element writes state of *this (field assignment, non-const call on a field or on *this)."""
    k = n["k"]
    if k in ("BinaryOperator", "CompoundAssignOperator") and n.get("op", "").endswith("=") and n.get("op") not in (
            "==", "!=", "<=", ">="):
        p = P.path(kids(n)[0])
        return p is not None and P.root(p) == ("this",)
    if k == "UnaryOperator" and n.get("op") in ("++", "--"):
        p = P.path(kids(n)[0])
        return p is not None and P.root(p) == ("this",)
    ci = call_info(u, n) if k in CALL_KINDS else None
    if ci is None or ci.decl is None or ci.kind != "member" or ci.obj is None:
        return False
    if ci.decl.get("const") or ci.decl.get("static"):
        return False
    p = P.path(ci.obj)
    if p is None or P.root(p) != ("this",):
        return False
    return True


# ------------------------------------------------------------------------------------------------
# 6. call closure
# ------------------------------------------------------------------------------------------------
ALLOW_NS = ("bspline::", "std::", "__gnu_cxx::", "boost::math::", "operator new", "operator delete", "vt::", "vt_case::",
            "vt_control::", "Eigen::", "arma::", "boost::multiprecision::", "__builtin_", "boost::")
DENY = {"rand", "srand", "random", "strtok", "localtime", "gmtime", "asctime", "ctime", "setlocale", "getenv", "time",
        "clock", "tmpnam", "strerror", "drand48", "lrand48", "rand_r", "system", "exit", "abort", "signal", "raise"}
DENY_QN = ("std::this_thread::", "std::random_device", "std::rand", "std::srand", "std::cout", "std::cerr", "std::clog",
           "std::cin", "std::thread", "std::async", "std::mutex", "std::atomic", "std::chrono::", "std::locale",
           "std::getenv", "std::time", "std::clock", "std::setlocale", "std::strtok", "std::localtime")


def call_closure(chk, units):
    rule = "R-EFF.closure"
    chk.rule(rule, "every function or object referenced by instantiated library code lives in an allow-listed "
                   "namespace (bspline, std, __gnu_cxx, boost::math, allocation) and is not on the deny-list of "
                   "non-reentrant, environment-reading, clock/thread-dependent or global-stream entities")
    nref = 0
    seen_ok = set()
    for u in units:
        for f in u.funcs:
            if f.dependent or not f.in_lib():
                continue
            if "interpolateUsing" in f.qn:
                continue  # optional third-party solver adapters (their own thread-safety is Eigen's / Armadillo's)
            for n in f.all_nodes():
                did = None
                if n["k"] in ("DeclRefExpr", "MemberExpr"):
                    did = n.get("d")
                elif n["k"] in CALL_KINDS:
                    did = n.get("callee")
                elif n["k"] in CTOR_KINDS:
                    did = n.get("d")
                if did is None:
                    continue
                d = u.decls.get(did)
                if d is None or d.get("inroot"):
                    continue
                if d["k"] == "var" and d.get("local"):
                    continue
                if d["k"] in ("field",):
                    continue
                qn = d.get("qn", "")
                nref += 1
                bad = None
                if qn.startswith(DENY_QN) or (("::" not in qn) and qn.split("(")[0] in DENY):
                    bad = "deny-listed entity %s" % qn[:60]
                elif d["k"] in ("fn", "var") and "::" in qn and not qn.startswith(ALLOW_NS):
                    bad = "entity outside the allow-listed namespaces: %s" % qn[:60]
                elif d["k"] == "var" and d.get("sd") == 3 and not d.get("local") and not (
                        d.get("constq") or d.get("constexpr")):
                    bad = "mutable global object %s" % qn[:60]
                if bad:
                    chk.bad(rule, f.loc(n), f.pqn, "closure:%s" % qn.split("<")[0][:50],
                            "library code uses a %s (shared or thread/environment-dependent state)" % bad,
                            witness=dict(instantiation=f.qn, unit=u.name))
        chk.ok(rule, "include/bspline", "unit %s: external references of all instantiated library functions checked" %
               u.name, key=("closure", u.name))
    chk.note("external_references_checked", nref)
    return nref


# ------------------------------------------------------------------------------------------------
# 7. lifetimes
# ------------------------------------------------------------------------------------------------
def lifetimes(chk, units, scope=None):
    rule = "R-LIFE"
    chk.rule(rule, "no local reference or iterator is initialised from a reference-returning member call (or member "
                   "access) on a temporary that dies at the end of the full-expression")
    nrefs = 0
    for u in units:
        for f in u.funcs:
            if f.dependent or not f.in_repo():
                continue
            if scope and not scope(f):
                continue
            for n in f.all_nodes():
                if n["k"] != "VarDecl" or not kids(n):
                    continue
                t = u.types[n["t"]]
                is_ref = t.endswith("&")
                is_iter = "__normal_iterator<" in t or t.endswith("*")
                if not (is_ref or is_iter):
                    continue
                nrefs += 1
                init = kids(n)[0]
                tmp = _rooted_in_temporary(u, init, is_ref)
                if tmp:
                    chk.bad(rule, f.loc(n), f.pqn, "dangling:%s" % n.get("n"),
                            "'%s' refers into a temporary (%s) that is destroyed at the end of the declaration" % (
                                n.get("n"), tmp), witness=dict(instantiation=f.qn, unit=u.name))
    chk.ok(rule, "include/bspline, examples", "%d reference / iterator locals: none rooted in a dying temporary" % nrefs,
           key="life")
    return nrefs


def _rooted_in_temporary(u, e, is_ref, depth=0):
    """Description of the temporary the expression refers into, or None."""
    if depth > 8 or e is None:
        return None
    k = e["k"]
    if k in ("ExprWithCleanups", "ImplicitCastExpr", "ParenExpr", "CXXBindTemporaryExpr", "ConstantExpr"):
        return _rooted_in_temporary(u, kids(e)[0], is_ref, depth) if kids(e) else None
    if k == "MaterializeTemporaryExpr":
        if depth == 0 and is_ref:
            return None  # reference bound directly to a prvalue: lifetime-extended
        inner = strip(kids(e)[0]) if kids(e) else None
        tt = u.types[e["t"]] if e.get("t") is not None else ""
        if tt.replace("const ", "").startswith(("__gnu_cxx::__normal_iterator<", "std::reverse_iterator<",
                                                 "std::move_iterator<")) or tt.rstrip().endswith("*"):
            # a temporary *iterator / pointer* is a value: what matters is the container it points into
            return _rooted_in_temporary(u, inner, is_ref, depth + 1) if inner is not None else None
        # a temporary materialised so that a member can be called on it
        return "temporary of type %s" % (u.types[e["t"]][:50] if e.get("t") is not None else "?")
    if k in CALL_KINDS:
        ci = call_info(u, e)
        if ci is None or ci.decl is None:
            return None
        rt = ci.decl.get("rtype", "")
        returns_into = rt.endswith("&") or "__normal_iterator<" in rt or rt.endswith("*")
        if not returns_into:
            return None
        if ci.decl["qn"].startswith(("std::move<", "std::forward<", "std::get<")) and ci.args:
            return _rooted_in_temporary(u, ci.args[0], is_ref, depth + 1)
        if ci.kind == "member" and ci.obj is not None:
            # operator* / -> of iterators and smart pointers refer to the pointee, not the temporary handle
            if ci.decl.get("op") in ("*", "->") or ci.decl["name"] in ("get",):
                return None
            return _rooted_in_temporary(u, ci.obj, is_ref, depth + 1)
        return None
    if k == "MemberExpr" and kids(e):
        if e.get("arrow"):
            return None
        return _rooted_in_temporary(u, kids(e)[0], is_ref, depth + 1)
    return None


# ------------------------------------------------------------------------------------------------
# 8. references / iterators into a container that is grown while they are still used
# ------------------------------------------------------------------------------------------------
ELEM_ACCESS = {"operator[]", "at", "front", "back", "begin", "end", "cbegin", "cend", "data", "rbegin", "rend"}
INVALIDATING = {"push_back", "emplace_back", "insert", "emplace", "resize", "reserve", "assign", "clear", "erase",
                "pop_back", "shrink_to_fit", "operator=", "swap"}
GROWABLE = ("std::vector<", "std::deque<", "std::basic_string<", "std::__cxx11::basic_string<")


def invalidation(chk, units, scope=None):
    rule = "R-LIFE.inval"
    chk.rule(rule, "a local reference / iterator / pointer bound to an element of a growable container is not used "
                   "after a call that may reallocate or erase in that same container (push_back, insert, resize, "
                   "erase, assignment, ...) - on any CFG path")
    nrefs = 0
    for u in units:
        getters = getter_table(u)
        for f in u.funcs:
            if f.dependent or not f.in_repo() or f.cfg is None:
                continue
            if scope and not scope(f):
                continue
            P = None
            cands = []
            for n in f.all_nodes():
                if n["k"] != "VarDecl" or not kids(n):
                    continue
                t = u.types[n["t"]]
                if not (t.endswith("&") or "__normal_iterator<" in t or t.endswith("*")):
                    continue
                init = strip(kids(n)[0])
                while init is not None and init["k"] in CTOR_KINDS and len(kids(init)) == 1:
                    init = strip(kids(init)[0])
                ci = call_info(u, init) if init is not None and init["k"] in CALL_KINDS else None
                if ci is None or ci.decl is None or ci.kind != "member" or ci.obj is None:
                    continue
                if ci.decl["name"] not in ELEM_ACCESS or not ci.decl.get("recqn", "").startswith(GROWABLE):
                    continue
                if P is None:
                    P = Paths(u, f, getters)
                cpath = P.path(ci.obj)
                if cpath is None or cpath[0] == "tmp":
                    continue
                cands.append((n, cpath))
            if not cands:
                continue
            g = CFG(f)
            for decl, cpath in cands:
                nrefs += 1
                # invalidating calls on the same container, uses of the reference
                kills, uses = [], []
                for b in g.blocks:
                    for i, x in enumerate(g.elements(b)):
                        if x["k"] == "DeclRefExpr" and x.get("d") == decl["id"]:
                            uses.append((b, i, x))
                        ci = call_info(u, x) if x["k"] in CALL_KINDS else None
                        if ci and ci.decl is not None and ci.kind == "member" and ci.obj is not None and \
                                ci.decl["name"] in INVALIDATING and not ci.decl.get("const") and \
                                ci.decl.get("recqn", "").startswith(GROWABLE) and P.path(ci.obj) == cpath:
                            kills.append((b, i, x))
                dpos = g.position(decl["id"])
                bad = None
                for (kb, ki, kn) in kills:
                    # the call must be reachable after the reference was bound
                    if dpos is not None and not (kb == dpos[0] and ki > dpos[1]) and kb not in g.reachable(
                            start=dpos[0]) - {dpos[0]} and not (kb == dpos[0] and g.path(g.succ[kb][0], kb)
                                                               if g.succ[kb] else False):
                        continue
                    after = set()
                    for sblk in g.succ[kb]:
                        after |= g.reachable(start=sblk)
                    for (ub, ui, un) in uses:
                        later = (ub == kb and ui > ki) or (ub in after)
                        # re-binding in a loop: the declaration itself is re-executed before the use
                        if later and ub in after and dpos is not None and _rebinds_between(g, kb, ub, ui, dpos):
                            later = (ub == kb and ui > ki)
                        if later:
                            bad = (kn, un)
                            break
                    if bad:
                        break
                if bad:
                    kn, un = bad
                    chk.bad(rule, f.loc(un), f.pqn, "invalidated:%s" % decl.get("n"),
                            "'%s' refers into a container that may be reallocated / erased by the call at line %s and is "
                            "used afterwards (line %s): dangling reference" % (decl.get("n"), kn.get("l"), un.get("l")),
                            witness=dict(instantiation=f.qn, unit=u.name, bound_at=decl.get("l"), call=kn.get("l")))
    chk.ok(rule, "include/bspline, examples", "%d references / iterators into growable containers: none used after an "
           "invalidating call" % nrefs, key="inval")
    return nrefs


def _rebinds_between(g, kb, ub, ui, dpos):
    """Every path from the invalidating call's block to the use passes the (re-executed) declaration."""
    if dpos[0] == ub and dpos[1] < ui:
        # same block: the declaration precedes the use in that block
        return True
    for sblk in g.succ[kb]:
        if g.path(sblk, ub, cut_blocks=[dpos[0]]) is not None and sblk != dpos[0]:
            return False
        if sblk == ub and dpos[0] != ub:
            return False
    return True


# ------------------------------------------------------------------------------------------------
# 9. function-local statics frozen at the first call
# ------------------------------------------------------------------------------------------------
def frozen_statics(chk, units, scope=None):
    rule = "R-EFF.frozen"
    chk.rule(rule, "a function-local static (even a const one) is not initialised from the enclosing function's "
                   "parameters or locals: it would keep the value of the FIRST call for every later call")
    n_static = 0
    for u in units:
        for f in u.funcs:
            if f.dependent or not f.in_repo():
                continue
            if scope and not scope(f):
                continue
            params = {p["id"] for p in f.decl["params"]}
            locals_ = {n["id"] for n in f.all_nodes() if n["k"] == "VarDecl" and not n.get("static")}
            for n in f.all_nodes():
                if n["k"] != "VarDecl" or not n.get("static"):
                    continue
                n_static += 1
                dep = None
                for x in walk(n):
                    if x["k"] == "DeclRefExpr" and (x.get("d") in params or x.get("d") in locals_):
                        dep = x.get("n")
                        break
                    if x["k"] == "CXXThisExpr":
                        dep = "this"
                        break
                if dep:
                    chk.bad(rule, f.loc(n), f.pqn, "frozen-static:%s" % n.get("n"),
                            "static local '%s' is initialised from '%s' of the enclosing function: later calls with "
                            "other arguments silently reuse the first call's value" % (n.get("n"), dep),
                            witness=dict(instantiation=f.qn, unit=u.name))
                else:
                    chk.ok(rule, f.loc(n), "%s: static '%s' has a call-independent initialiser" % (f.pqn, n.get("n")),
                           key=(f.pkey, n.get("l"), n.get("n")))
    return n_static


# ------------------------------------------------------------------------------------------------
# 10. returning a reference to a local / temporary
# ------------------------------------------------------------------------------------------------
def _returns_ref(d):
    rt = d.get("rtype", "")
    return rt.endswith("&") or rt.endswith("&&")


class RetAlias:
    """Which arguments (0 = implicit object) the reference returned by a repository function may alias."""

    def __init__(self, u):
        self.u = u
        self.memo = {}

    def of(self, f, depth=0):
        if f.id in self.memo:
            return self.memo[f.id]
        self.memo[f.id] = set()
        out = set()
        if not _returns_ref(f.decl):
            return out
        params = {p["id"]: i for i, p in enumerate(f.decl["params"], 1)}
        for n in f.all_nodes():
            if n["k"] != "ReturnStmt" or not kids(n):
                continue
            out |= self._expr(f, kids(n)[0], params, depth)
        self.memo[f.id] = out
        return out

    def _expr(self, f, e, params, depth):
        e = strip(e)
        out = set()
        if e is None or depth > 6:
            return out
        k = e["k"]
        if k == "DeclRefExpr":
            if e["d"] in params:
                out.add(params[e["d"]])
            else:
                # a reference local: follow its initialiser
                for n in f.all_nodes():
                    if n["k"] == "VarDecl" and n["id"] == e["d"] and kids(n) and self.u.types[n["t"]].endswith("&"):
                        out |= self._expr(f, kids(n)[0], params, depth + 1)
        elif k == "CXXThisExpr" or (k == "UnaryOperator" and e.get("op") == "*" and kids(e) and
                                    strip(kids(e)[0])["k"] == "CXXThisExpr"):
            out.add(0)
        elif k == "MemberExpr" and kids(e):
            out |= self._expr(f, kids(e)[0], params, depth + 1)
        elif k == "ConditionalOperator":
            out |= self._expr(f, e["ch"][1], params, depth + 1) | self._expr(f, e["ch"][2], params, depth + 1)
        elif k in CALL_KINDS:
            ci = call_info(self.u, e)
            if ci and ci.decl is not None and _returns_ref(ci.decl):
                callee = self.u.func_of(ci.decl["id"])
                if ci.decl["qn"].startswith(("std::move<", "std::forward<")) and ci.args:
                    out |= self._expr(f, ci.args[0], params, depth + 1)
                elif callee is not None and callee.in_repo():
                    for idx in self.of(callee, depth + 1):
                        arg = ci.obj if idx == 0 else (ci.args[idx - 1] if idx - 1 < len(ci.args) else None)
                        if arg is not None:
                            out |= self._expr(f, arg, params, depth + 1)
                elif ci.kind == "member" and ci.obj is not None and ci.decl["name"] in ELEM_ACCESS | {"value",
                                                                                                      "operator*"}:
                    out |= self._expr(f, ci.obj, params, depth + 1)
        return out


def returned_references(chk, units, scope=None):
    rule = "R-LIFE.ret"
    chk.rule(rule, "a function returning a reference never returns one that refers to a temporary, a by-value "
                   "parameter or a non-static local (directly, or through a call that hands back a reference to its "
                   "argument)")
    n_fn = 0
    for u in units:
        ra = RetAlias(u)
        for f in u.funcs:
            if f.dependent or not f.in_repo() or not _returns_ref(f.decl):
                continue
            if scope and not scope(f):
                continue
            n_fn += 1
            byval = {p["id"]: p["name"] for p in f.decl["params"] if not p["type"].endswith("&")}
            locals_ = {n["id"]: n.get("n") for n in f.all_nodes() if n["k"] == "VarDecl" and not n.get("static") and
                       not u.types[n["t"]].endswith("&")}
            for n in f.all_nodes():
                if n["k"] != "ReturnStmt" or not kids(n):
                    continue
                why = _dies(u, f, kids(n)[0], byval, locals_, ra, 0)
                if why:
                    chk.bad(rule, f.loc(n), f.pqn, "returns-dangling",
                            "the returned reference refers to %s, which is destroyed when the function returns" % why,
                            witness=dict(instantiation=f.qn, unit=u.name))
    chk.ok(rule, "include/bspline, examples", "%d reference-returning functions: none hands out a reference to a dying "
           "object" % n_fn, key="ret")
    return n_fn


def _dies(u, f, e, byval, locals_, ra, depth):
    e0 = e
    e = strip(e)
    if e is None or depth > 6:
        return None
    # a temporary materialised inside the return expression
    x = e0
    while x is not None and x["k"] in ("ExprWithCleanups", "ImplicitCastExpr", "ParenExpr", "CXXBindTemporaryExpr"):
        x = kids(x)[0] if kids(x) else None
    if x is not None and x["k"] == "MaterializeTemporaryExpr":
        return "a temporary of type %s" % (u.types[x["t"]][:50] if x.get("t") is not None else "?")
    k = e["k"]
    if k == "DeclRefExpr":
        if e["d"] in byval:
            return "the by-value parameter '%s'" % byval[e["d"]]
        if e["d"] in locals_:
            return "the local variable '%s'" % locals_[e["d"]]
        return None
    if k == "MemberExpr" and kids(e) and not e.get("arrow"):
        return _dies(u, f, kids(e)[0], byval, locals_, ra, depth + 1)
    if k in CALL_KINDS:
        ci = call_info(u, e)
        if ci is None or ci.decl is None or not _returns_ref(ci.decl):
            return None
        callee = u.func_of(ci.decl["id"])
        idxs = set()
        if ci.decl["qn"].startswith(("std::move<", "std::forward<")):
            idxs = {1}
        elif callee is not None and callee.in_repo():
            idxs = ra.of(callee)
        elif ci.kind == "member" and ci.decl["name"] in ELEM_ACCESS | {"value", "operator*"} and \
                not ci.decl.get("recqn", "").startswith(("__gnu_cxx::__normal_iterator<", "std::shared_ptr<",
                                                         "std::reverse_iterator<")):
            idxs = {0}
        for idx in idxs:
            arg = ci.obj if idx == 0 else (ci.args[idx - 1] if idx - 1 < len(ci.args) else None)
            if arg is not None:
                w = _dies(u, f, arg, byval, locals_, ra, depth + 1)
                if w:
                    return w
    return None


# ------------------------------------------------------------------------------------------------
# 11. API shape: functions that returned by value do not start returning references
# ------------------------------------------------------------------------------------------------
def api_returns(chk, units, baseline_path=None, baseline=None, files=None):
    import json
    rule = "R-API.ret"
    chk.rule(rule, "a public library function that returned BY VALUE on the reference tree does not return a reference "
                   "or pointer now: callers may bind the result to a reference or use it after the source object is gone "
                   "(const auto& g = Generator(knots).getGrid())")
    if baseline is not None:
        base = baseline
    else:
        baseline_path = baseline_path or os.path.join(C.VERIF, "api_baseline.json")
        if not os.path.exists(baseline_path):
            raise AnalysisBroken("api_baseline.json missing")
        base = json.load(open(baseline_path))
    n = 0
    seen = set()
    for u in units:
        for d in u.decls.values():
            if d["k"] != "fn" or d.get("dependent") or not C.in_lib(d.get("pfile", "")):
                continue
            if d.get("access") not in (None, "public") or d.get("implicit") or d.get("lambdaop"):
                continue
            if "::internal::" in d["pqn"]:
                continue   # implementation helpers are not the library's API (R-LIFE.ret still covers them)
            if files is not None and not files(d.get("pfile", "")):
                continue
            key = "%s|%d" % (d["pqn"], len(d["params"]))
            was = base.get(key)
            if was is None:
                continue
            rt = d.get("rtype", "")
            now = "ref" if (rt.endswith("&") or rt.endswith("*")) else "value"
            if was == "value" and now == "ref":
                chk.bad(rule, "%s:%d" % (C.rel(d["pfile"]), d["pline"]), d["pqn"], "value-to-reference",
                        "%s returned by value on the reference tree and now returns %s: results bound to references / "
                        "used after the source object is destroyed dangle" % (d["pqn"], rt[:70]),
                        witness=dict(instantiation=d["qn"]))
            elif key not in seen:
                seen.add(key)
                n += 1
    chk.ok(rule, "include/bspline", "%d public functions keep returning by value where they did" % n, key="api")
    return n


def make_api_baseline(units, path):
    import json
    out = {}
    for u in units:
        for d in u.decls.values():
            if d["k"] != "fn" or d.get("dependent") or not C.in_lib(d.get("pfile", "")):
                continue
            if d.get("access") not in (None, "public") or d.get("implicit") or d.get("lambdaop"):
                continue
            rt = d.get("rtype", "")
            kind = "ref" if (rt.endswith("&") or rt.endswith("*")) else "value"
            key = "%s|%d" % (d["pqn"], len(d["params"]))
            if out.get(key, kind) != kind:
                out[key] = "mixed"
            else:
                out[key] = kind
    params = {}
    amb = set()
    for u in units:
        for d in u.decls.values():
            if d["k"] != "fn" or not C.in_lib(d.get("pfile", "")) or "::internal::" in d.get("pqn", ""):
                continue
            if d.get("access") not in (None, "public") or d.get("implicit") or d.get("lambdaop"):
                continue
            key = "%s|%d" % (d["pqn"], len(d["params"]))
            kinds = [_pkind(p["type"]) for p in d["params"]]
            if key in params and params[key] != kinds:
                amb.add(key)       # overloads of one name and arity with different passing modes: not tabulated
            params.setdefault(key, kinds)
    for k in amb:
        params.pop(k, None)
    out2 = dict(sorted(out.items()))
    out2["__params__"] = dict(sorted(params.items()))
    json.dump(out2, open(path, "w"), indent=0)
    return len(out)


# ------------------------------------------------------------------------------------------------
# 12. shared_ptr that borrows: built from the address of something it does not own
# ------------------------------------------------------------------------------------------------
def borrowed_shared(chk, units, scope=None):
    rule = "R-OWN.borrow"
    chk.rule(rule, "no shared_ptr in library code is made to point at an object it does not own: construction from a raw "
                   "pointer that is the address of a parameter / reference / member (&x), with a custom deleter, or through "
                   "the aliasing constructor shared_ptr(owner, raw) - members of type shared_ptr<const X> are accepted as "
                   "shared IMMUTABLE state only because every such pointer comes from make_shared / a copy")
    n = 0
    for u in units:
        for f in u.funcs:
            if f.dependent or not (scope(f) if scope else f.in_lib()):
                continue
            roots = [f.body] + [i["init"] for i in f.inits if i.get("init")]
            for r in roots:
                for x in (walk(r) if r is not None else ()):
                    if x["k"] not in ("CXXConstructExpr", "CXXTemporaryObjectExpr"):
                        continue
                    d = u.decls.get(x.get("d"))
                    if d is None or not d.get("recqn", "").startswith("std::shared_ptr<"):
                        continue
                    args = [a for a in kids(x) if a is not None and a["k"] != "CXXDefaultArgExpr"]
                    if not args:
                        continue
                    n += 1
                    ptypes = [p["type"] for p in d.get("params", ())]
                    raw = [i for i, pt in enumerate(ptypes) if pt.rstrip().endswith("*")]
                    if not raw:
                        continue   # copy / move / from make_shared / nullptr
                    why = None
                    if len(ptypes) >= 2 and ptypes[0].replace("const ", "").startswith("std::shared_ptr<"):
                        why = "the aliasing constructor shared_ptr(owner, pointer): the pointee's lifetime is not tied to " \
                              "this pointer"
                    elif len(args) >= 2:
                        why = "a raw pointer with a custom deleter"
                    else:
                        a0 = strip(args[raw[0]]) if raw[0] < len(args) else None
                        if a0 is not None and a0["k"] == "UnaryOperator" and a0.get("op") == "&":
                            why = "the address of an existing object (&x)"
                        elif a0 is not None and a0["k"] != "CXXNewExpr":
                            why = "a raw pointer that is not the result of new"
                    if why:
                        chk.bad(rule, f.loc(x), f.pqn, "borrowing-shared_ptr",
                                "a shared_ptr is constructed from %s: the object holding it does not own that state, so it "
                                "changes or dies with the original" % why, witness=dict(instantiation=f.qn, unit=u.name))
    chk.ok(rule, "include/bspline", "%d shared_ptr constructions: all own what they point to" % n, key="borrow")
    return n


# ------------------------------------------------------------------------------------------------
# 13. API shape: parameters that were const references do not become mutable / forwarding references
# ------------------------------------------------------------------------------------------------
def _pkind(t):
    t = t.strip()
    if t.endswith("&&"):
        return "rref"
    if t.endswith("&"):
        return "cref" if t.startswith("const ") or " const &" in t or "const&" in t else "ref"
    return "value"


def api_params(chk, units, baseline=None, files=None):
    import json
    rule = "R-API.param"
    chk.rule(rule, "a parameter of a public library function that was a CONST reference on the reference tree is not a "
                   "non-const or forwarding reference now (the function could then modify, or bind mutably to, what callers "
                   "hand in - e.g. call a functor's non-const operator(), deduce a reference type for a stored scalar)")
    if baseline is None:
        path = os.path.join(C.VERIF, "api_baseline.json")
        base = json.load(open(path)).get("__params__", {}) if os.path.exists(path) else None
        if base is None or not base:
            raise AnalysisBroken("api_baseline.json has no parameter table (run bin/mkbaseline)")
    else:
        base = baseline
    n, seen, flagged = 0, set(), set()
    # an ADDED overload taking a true rvalue reference (`Spline&&`, not a deduced `P&&`) next to the surviving const& one
    # binds temporaries only: named and const arguments still go to the const& overload - not a change of this contract
    import re as _re
    keeps_cref, forwarding = set(), set()
    for u in units:
        for d in u.decls.values():
            if d["k"] != "fn" or not C.in_lib(d.get("pfile", "")):
                continue
            key = "%s|%d" % (d.get("pqn"), len(d["params"]))
            for i, p_ in enumerate(d["params"]):
                if _pkind(p_["type"]) == "cref":
                    keeps_cref.add((key, i))
                if d.get("dependent") and _re.fullmatch(r"type-parameter-\d+-\d+ &&", p_["type"].strip()):
                    forwarding.add((key, i))
    # every declaration (pattern and instantiations) is compared with the tabulated passing modes (one per function template), not instantiations
    for u in units:
        for d in u.decls.values():
            if d["k"] != "fn":
                continue
            if not C.in_lib(d.get("pfile", "")) or "::internal::" in d.get("pqn", ""):
                continue
            if d.get("access") not in (None, "public") or d.get("implicit") or d.get("lambdaop"):
                continue
            if files is not None and not files(d.get("pfile", "")):
                continue
            key = "%s|%d" % (d["pqn"], len(d["params"]))
            was = base.get(key)
            if was is None:
                continue
            now = [_pkind(p["type"]) for p in d["params"]]
            if len(was) != len(now):
                continue
            if key not in seen:
                seen.add(key)
                n += 1
            for i, (a, b) in enumerate(zip(was, now)):
                if (key, i, b) in flagged:
                    continue
                if a == "cref" and b == "rref" and (key, i) in keeps_cref and (key, i) not in forwarding:
                    continue
                if a == "cref" and b in ("ref", "rref"):
                    flagged.add((key, i, b))
                    chk.bad(rule, "%s:%d" % (C.rel(d["pfile"]), d["pline"]), d["pqn"], "param-%d-const-ref-to-%s" % (i + 1, b),
                            "parameter %d of %s was a const reference on the reference tree and is %s now" % (
                                i + 1, d["pqn"], "a non-const reference" if b == "ref" else
                                "an rvalue / forwarding reference (a non-const lvalue argument is now bound mutably)"),
                            witness=dict(declaration=d["qn"], type=d["params"][i]["type"]))
    chk.ok(rule, "include/bspline", "%d public functions keep their const-reference parameters" % n, key="apiparam")
    return n
