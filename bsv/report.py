"""Verdict bookkeeping: obligations, violations, known findings, evidence, exit codes.

exit 0  every rule instance analysed and holds (KNOWN-FINDING lines may be printed)
exit 1  VIOLATION property=<id> replay=<path>
exit 2  ANALYSIS-BROKEN (anchor vanished, floor not met, control silent, parse failure)
"""
import json
import os
import re
import sys
import time

from . import config as C
from .facts import AnalysisBroken


def load_known():
    """KNOWN_FINDINGS.txt -> list of dict(kind, property, rule, at, text).  Only `known:` lines
    suppress (and only the exact construct they name); `fixed:` lines are history."""
    out = []
    if not os.path.exists(C.KNOWN_FINDINGS):
        return out
    for line in open(C.KNOWN_FINDINGS):
        line = line.strip()
        if not line or line.startswith("#"):
            continue
        m = re.match(r"(known|fixed):\s+property=(\S+)\s+(.*)$", line)
        if not m:
            continue
        kind, prop, rest = m.groups()
        e = dict(kind=kind, property=prop, text=rest, rule=None, at=None)
        if kind == "known":
            m2 = re.match(r"rule=(\S+)\s+at=(\S+)\s*(.*)$", rest)
            if m2:
                e["rule"], e["at"], e["text"] = m2.groups()
        out.append(e)
    return out


CURRENT = []   # the Check objects created in this process (bin/check inspects the last one on failure)


class Check:
    def __init__(self, pid, level, explanation, checker_cmd=None):
        CURRENT.append(self)
        self.pid = pid
        self.level = level
        self.explanation = explanation
        self.checker_cmd = checker_cmd or ("bin/check %s" % pid)
        self.t0 = time.time()
        self.rules = {}          # rule -> dict(text, instances, violations, samples)
        self.violations = []     # dicts
        self.known_hits = []
        self.assumptions = []
        self.trusted = []
        self.notes = {}
        self.units = []
        self.exhaustive = None
        self.distinct = set()
        self.executed = set()    # pattern locations of functions evaluated abstractly by R-REG
        self.regions = 0         # abstract cases evaluated by R-REG
        self.known = [k for k in load_known() if k["property"] == pid and k["kind"] == "known"]

    # -- declaring rules ----------------------------------------------------
    def rule(self, rid, text):
        self.rules.setdefault(rid, dict(text=text, instances=0, violations=0, controls=0, samples=[]))

    def _r(self, rid):
        if rid not in self.rules:
            self.rule(rid, "")
        return self.rules[rid]

    def ok(self, rid, where, desc, sample=None, key=None):
        r = self._r(rid)
        k = (rid, key if key is not None else (where, desc))
        if k in self.distinct:
            return  # same site/case seen in another instantiation or unit: one obligation
        r["instances"] += 1
        self.distinct.add(k)
        if len(r["samples"]) < 6:
            r["samples"].append(sample if sample is not None else {"at": where, "what": desc, "verdict": "holds"})

    def bad(self, rid, where, fn, construct, msg, witness=None):
        """A construct whose analysed meaning contradicts rule `rid`.
        `construct` is a position-independent signature of the construct (used to match known findings)."""
        r = self._r(rid)
        r["instances"] += 1
        at = "%s::%s::%s" % (where.rsplit(":", 1)[0] if ":" in where else where, fn, construct)
        at = at.replace(" ", "")
        v = dict(rule=rid, where=where, function=fn, construct=construct, at=at, message=msg,
                 witness=witness)
        for k in self.known:
            if k["rule"] == rid and k["at"] == at:
                self.known_hits.append((k, v))
                return
        # one report per (rule, place, construct): instantiations are aggregated
        for old in self.violations:
            if old["rule"] == rid and old["at"] == at and old["where"] == where:
                old.setdefault("also_in", [])
                if witness and len(old["also_in"]) < 8:
                    old["also_in"].append(witness.get("instantiation") if isinstance(witness, dict) else None)
                r["instances"] -= 1
                return
        r["violations"] += 1
        self.violations.append(v)

    def floor(self, rid, found, minimum, what):
        if found < minimum:
            raise AnalysisBroken("rule %s: %d %s found, at least %d confirmed on the reference tree "
                                 "(anchor vanished or driver no longer instantiates it)" % (rid, found, what, minimum))
        self.notes.setdefault("floors", {})["%s:%s" % (rid, what)] = dict(found=found, floor=minimum)

    def control(self, rid, name, fired):
        r = self._r(rid)
        if not fired:
            raise AnalysisBroken("rule %s: positive control '%s' no longer fires" % (rid, name))
        r["controls"] += 1
        self.notes.setdefault("controls_fired", []).append("%s:%s" % (rid, name))

    def assume(self, *texts):
        for t in texts:
            if t not in self.assumptions:
                self.assumptions.append(t)

    def trust(self, *texts):
        for t in texts:
            if t not in self.trusted:
                self.trusted.append(t)

    def note(self, key, value):
        self.notes[key] = value

    # -- finishing -----------------------------------------------------------
    def _write_replays(self):
        os.makedirs(C.REPLAYS, exist_ok=True)
        # remove stale replays of this property
        for f in os.listdir(C.REPLAYS):
            if f.startswith(self.pid + "-"):
                try:
                    os.unlink(os.path.join(C.REPLAYS, f))
                except OSError:
                    pass
        paths = []
        for i, v in enumerate(self.violations):
            p = os.path.join(C.REPLAYS, "%s-%d.json" % (self.pid, i + 1))
            with open(p, "w") as fh:
                json.dump(dict(property=self.pid, repo=C.REPO, **v), fh, indent=1, default=str)
            paths.append(p)
        return paths

    def evidence(self, broken=None):
        obligations = sum(r["instances"] for r in self.rules.values())
        nviol = sum(r["violations"] for r in self.rules.values())
        samples = []
        for rid, r in self.rules.items():
            for s in r["samples"][:3]:
                samples.append(dict(rule=rid, **s) if isinstance(s, dict) else dict(rule=rid, case=s))
        for v in self.violations[:5]:
            samples.append(dict(rule=v["rule"], at=v["where"], what=v["message"], verdict="VIOLATION"))
        if not samples:
            samples.append(dict(note="no instance analysed"))
        cov = dict(
            explanation=self.explanation,
            obligations=obligations,
            discharged=obligations - nviol - 0,
            checker_cmd=self.checker_cmd,
            trusted_base=self.trusted,
            evaluations=max(obligations + self.regions, 1),
            distinct_nontrivial=len(self.distinct),
            rule="evaluations = rule instances decided on the source of this run (entry points, write sites, "
                 "(function, clause) obligations, compile witnesses, scan sites) plus the abstract regions the region "
                 "evaluator went through to decide them; distinct_nontrivial counts only the distinct (rule, site / "
                 "(function, clause)) obligations - conservative, regions are not counted; positive controls are "
                 "not counted",
            samples=samples,
            rules={rid: dict(text=r["text"], instances=r["instances"], violations=r["violations"],
                             positive_controls_fired=r["controls"]) for rid, r in self.rules.items()},
            units_analysed=self.units,
            repo=C.REPO,
        )
        if self.exhaustive is not None:
            # functions that scale an index by a constant (a hand-written bisection) are outside the order-type
            # argument: for them the enumeration is complete up to the size bound only
            cov["exhaustive"] = bool(self.exhaustive) and not self.notes.get(
                "index_arithmetic_outside_order_type_fragment")
        cov.update(self.notes)
        if self.known_hits:
            cov["known_findings_matched"] = [v["at"] for _, v in self.known_hits]
        if broken:
            cov["analysis_broken"] = broken
        ev = dict(property_id=self.pid, tier=C.tier(), seed=C.seed(), level=self.level, coverage=cov,
                  assumptions=self.assumptions, wall_s=round(time.time() - self.t0, 3),
                  violations=len(self.violations))
        return ev

    def finish(self, broken=None):
        os.makedirs(C.EVIDENCE, exist_ok=True)
        paths = self._write_replays() if not broken else []
        ev = self.evidence(broken)
        with open(os.path.join(C.EVIDENCE, self.pid + ".json"), "w") as fh:
            json.dump(ev, fh, indent=1, default=str)
        for rid, r in self.rules.items():
            print("  rule %-8s instances=%-5d violations=%-3d controls=%d" % (rid, r["instances"], r["violations"],
                                                                             r["controls"]))
        for k, v in self.known_hits:
            print("KNOWN-FINDING: property=%s rule=%s at=%s %s" % (self.pid, v["rule"], v["at"], k["text"]))
        if broken:
            print("ANALYSIS-BROKEN property=%s %s" % (self.pid, broken))
            return 2
        for v, p in zip(self.violations, paths):
            print("  %s: [%s] in %s: %s" % (v["where"], v["rule"], v["function"], v["message"]))
            print("VIOLATION property=%s replay=%s" % (self.pid, p))
        if self.violations:
            return 1
        print("OK property=%s tier=%s obligations=%d wall=%.1fs" % (
            self.pid, C.tier(), ev["coverage"]["obligations"], ev["wall_s"]))
        return 0
