"""R-GRD: grid guard must-pass-through (property C08).

For every library function that receives two or more grid-carrying inputs, every path from
entry to a *normal* exit must pass a comparison of the grids of those inputs whose "differ"
outcome reaches only `throw BSplineException(DIFFERING_GRIDS)`, or a call to a function whose
summary establishes that.  Decided on the CFG of every instantiation, with bottom-up summaries
over the resolved call graph."""
from . import config as C
from .ast import CALL_KINDS, CTOR_KINDS, Paths, call_info, class_of_type, fmt_path, getter_table
from .cfg import CFG
from .facts import AnalysisBroken, kids, strip, walk

GRID_CLASSES = ("Spline", "Support", "Grid", "SplineOperator")

# functions that *are* the comparison, or replace their target from a single source
EXEMPT = {
    "operator==": "is the comparison itself: returns a value for differing grids",
    "operator!=": "is the comparison itself: returns a value for differing grids",
    "hasSameGrid": "is the comparison itself",
    "checkOverlap": "predicate restricted to one grid by C15; not in C08's list of refused operations",
    "operator=": "assignment: the single source replaces the target, nothing is combined",
}
# generic forwarders: the grid reaches SplineOperator::transform unchanged (R-IDX forwarding rule)
FORWARDERS = ("bspline::operators::transformSpline", "bspline::operators::operator*",
              "bspline::integration::LinearForm::evaluate", "bspline::integration::LinearForm::operator()")

COMPARATORS = {
    "bspline::support::Grid::operator==": ("==", "grid"),
    "bspline::support::Grid::operator!=": ("!=", "grid"),
    "bspline::support::Support::hasSameGrid": ("==", "support"),
}


def _spline_range_type(t):
    """Iterator / collection type whose elements are Splines."""
    if "bspline::Spline<" not in t:
        return False
    if class_of_type(t) is not None:
        return False
    return True


class Grd:
    def __init__(self, chk, u):
        self.chk, self.u = chk, u
        self.getters = getter_table(u)
        self.summ = {}       # func id -> set of frozenset({i,j}) of guarded input index pairs
        self.inprogress = set()
        self.paths = {}
        self.cfgs = {}
        self._creates = {}

    # -- helpers -----------------------------------------------------------------
    def P(self, f):
        p = self.paths.get(f.id)
        if p is None:
            p = self.paths[f.id] = Paths(self.u, f, self.getters)
        return p

    def G(self, f):
        g = self.cfgs.get(f.id)
        if g is None:
            g = self.cfgs[f.id] = CFG(f)
        return g

    def inputs(self, f):
        """[(index, kind, root)] of grid-carrying inputs: index 0 = implicit object, k = k-th parameter."""
        d = f.decl
        out = []
        if d.get("record") is not None and not d.get("static"):
            cls = class_of_type(d.get("recqn", ""))
            if cls in GRID_CLASSES:
                out.append((0, cls, ("this",)))
        for i, p in enumerate(d["params"], 1):
            cls = class_of_type(p["type"])
            if cls in GRID_CLASSES:
                out.append((i, cls, ("var", p["id"], p["name"])))
            elif _spline_range_type(p["type"]):
                out.append((i, "range", ("var", p["id"], p["name"])))
        return out

    def root_index(self, f, path, P):
        """Input index whose grid the object at `path` carries, or None."""
        r = P.root(path)
        if r is None:
            return None
        for idx, _, root in self.inputs(f):
            if root[0] == r[0] and (r[0] == "this" or root[1] == r[1]):
                return idx
        return None

    def creates_grid(self, f, depth=0):
        """Does f (transitively, inside the library) construct a Grid from raw data?"""
        if f.id in self._creates:
            return self._creates[f.id]
        self._creates[f.id] = False
        res = False
        for n in f.all_nodes():
            ci = call_info(self.u, n)
            if ci is None or ci.decl is None:
                continue
            if ci.kind == "ctor" and ci.decl.get("pqn", "").startswith("bspline::support::Grid::Grid") and not (
                    ci.decl.get("copyctor") or ci.decl.get("movector")):
                res = True
                break
            g = self.u.func_of(ci.decl["id"])
            if g is not None and g.in_lib() and depth < 12 and self.creates_grid(g, depth + 1):
                res = True
                break
        self._creates[f.id] = res
        return res

    def carried_inputs(self, f, expr, P):
        """Input indices mentioned inside expression `expr` (for temporaries built from inputs)."""
        found = set()
        for n in walk(expr):
            if n["k"] in ("DeclRefExpr", "CXXThisExpr", "MemberExpr"):
                p = P.path(n)
                i = self.root_index(f, p, P) if p else None
                if i is not None:
                    found.add(i)
        return found

    def arg_input(self, f, expr, P):
        """Which input's grid does argument `expr` carry?  Direct path, or a temporary computed from exactly one
        grid-carrying input by library code that cannot create a grid from data."""
        p = P.path(expr)
        i = self.root_index(f, p, P) if p else None
        if i is not None:
            return i
        r = P.root(p) if p else None
        if r is not None and r[0] == "var":
            # by-value local: follow its initialiser once
            for n in f.all_nodes():
                if n["k"] == "VarDecl" and n["id"] == r[1] and kids(n):
                    return self.arg_input(f, kids(n)[0], P)
            return None
        found = self.carried_inputs(f, expr, P)
        if len(found) != 1:
            return None
        for n in walk(expr):
            ci = call_info(self.u, n)
            if ci and ci.decl is not None:
                g = self.u.func_of(ci.decl["id"])
                if g is not None and g.in_lib() and self.creates_grid(g):
                    return None
        return next(iter(found))

    # -- guard sites ---------------------------------------------------------------
    def _cond_comparison(self, f, cond, P, depth=0):
        """(polarity, lhs_expr, rhs_expr, callnode): polarity True means 'condition true <=> grids equal'."""
        e = strip(cond)
        if e is None or depth > 4:
            return None
        if e["k"] == "UnaryOperator" and e.get("op") == "!":
            r = self._cond_comparison(f, kids(e)[0], P, depth + 1)
            return (not r[0], r[1], r[2], r[3]) if r else None
        if e["k"] == "DeclRefExpr":
            # const bool local holding the comparison
            for n in f.all_nodes():
                if n["k"] == "VarDecl" and n["id"] == e["d"] and kids(n):
                    t = self.u.types[n["t"]]
                    if t == "const bool":
                        return self._cond_comparison(f, kids(n)[0], P, depth + 1)
            return None
        if e["k"] in CALL_KINDS:
            ci = call_info(self.u, e)
            if ci is None or ci.decl is None:
                return None
            base = ci.decl["qn"].split("<")[0]
            if base == "std::equal" and len(ci.args) == 4:
                # element-wise comparison of two complete point sequences: a.begin(), a.end(), b.begin(), b.end()
                ends = []
                for a_, nm in zip(ci.args, ("begin", "end", "begin", "end")):
                    x = strip(a_)
                    while x is not None and x["k"] in CTOR_KINDS and len(kids(x)) == 1:
                        x = strip(kids(x)[0])
                    c2 = call_info(self.u, x) if x is not None and x["k"] in CALL_KINDS else None
                    if c2 is None or c2.decl is None or c2.obj is None or c2.decl["name"] not in (nm, "c" + nm):
                        return None
                    ends.append(c2.obj)
                pa, pb = P.path(ends[0]), P.path(ends[2])
                if pa is None or pb is None or pa != P.path(ends[1]) or pb != P.path(ends[3]):
                    return None
                return (True, ends[0], ends[2], e)
            cmp_ = COMPARATORS.get(ci.decl.get("pqn"))
            if cmp_ is None or ci.obj is None or len(ci.args) != 1:
                return None
            return (cmp_[0] == "==", ci.obj, ci.args[0], e)
        return None

    def _algo_range_guard(self, f, cond, P, depth=0):
        """(polarity, range argument expr, node) if cond is all_of / none_of / any_of over a range whose lambda
        compares the grid of its element with a reference grid: polarity True <=> 'condition true means all equal'."""
        e = strip(cond)
        if e is None or depth > 3:
            return None
        if e["k"] == "UnaryOperator" and e.get("op") == "!":
            r = self._algo_range_guard(f, kids(e)[0], P, depth + 1)
            return (not r[0], r[1], r[2]) if r else None
        if e["k"] == "DeclRefExpr":
            for n in f.all_nodes():
                if n["k"] == "VarDecl" and n["id"] == e["d"] and kids(n) and self.u.types[n["t"]] == "const bool":
                    return self._algo_range_guard(f, kids(n)[0], P, depth + 1)
            return None
        if e["k"] not in CALL_KINDS:
            return None
        ci = call_info(self.u, e)
        if ci is None or ci.decl is None or len(ci.args) != 3:
            return None
        base = ci.decl["qn"].split("<")[0]
        if base not in ("std::all_of", "std::none_of", "std::any_of"):
            return None
        lam = None
        for x in walk(ci.args[2]):
            if x["k"] == "LambdaExpr":
                lam = x
                break
            if x["k"] == "DeclRefExpr":
                # a closure held in a local variable
                for n in f.all_nodes():
                    if n["k"] == "VarDecl" and n["id"] == x["d"] and kids(n):
                        for y in walk(kids(n)[0]):
                            if y["k"] == "LambdaExpr":
                                lam = y
                                break
                if lam is not None:
                    break
        if lam is None:
            return None
        body = self.u.func_of(lam["callop"])
        if body is None or len(body.decl["params"]) != 1:
            return None
        # the lambda returns (a negation of) a grid comparison between its parameter and something else
        rets = [n for n in body.all_nodes() if n["k"] == "ReturnStmt" and kids(n)]
        if len(rets) != 1:
            return None
        Pb = Paths(self.u, body, self.getters)
        r = self._cond_comparison(body, kids(rets[0])[0], Pb)
        if r is None:
            return None
        equal_if_true, lhs, rhs, _ = r
        param = body.decl["params"][0]["id"]
        roots = [Pb.root(Pb.path(x)) for x in (lhs, rhs)]
        on_param = [rt is not None and rt[0] == "var" and rt[1] == param for rt in roots]
        if sum(1 for x in on_param if x) != 1:
            return None   # the element must be compared with something else (a reference element / grid)
        # all_of(equal) / none_of(differ): true <=> all equal;  any_of(differ): true <=> some differ
        if base == "std::all_of":
            pol = equal_if_true
        elif base == "std::none_of":
            pol = not equal_if_true
        else:
            pol = None if equal_if_true else False
        if pol is None:
            return None
        return (pol, ci.args[0], e)

    def _throw_code(self, g, blk):
        """ErrorCode enumerator names thrown at the end of paths starting in block blk (all must throw)."""
        codes = set()
        seen = g.reachable(start=blk, cut_blocks=[x for x in g.blocks if g.is_throw_block(x)])
        for b in seen:
            if not g.is_throw_block(b):
                continue
            l = g.last(b)
            if l is None or l["k"] != "CXXThrowExpr":
                codes.add("<noreturn>")
                continue
            code = None
            cls = None
            for n in walk(l):
                if n["k"] in CTOR_KINDS:
                    d = self.u.decls.get(n.get("d"))
                    if d and cls is None:
                        cls = d.get("recqn")
                if n["k"] == "DeclRefExpr":
                    d = self.u.decls.get(n["d"])
                    if d and d.get("kind") == "EnumConstant":
                        code = d["name"]
            codes.add("%s:%s" % (cls, code))
        return codes

    def guard_sites(self, f):
        """Direct comparison guards: [(block, pair(frozenset of input idx), differ_codes, line, desc)] and
        range guards, and call guards [(block, elem_index, pair)]."""
        u, g, P = self.u, self.G(f), self.P(f)
        sites = []
        # branch guards
        for b, blk in g.blocks.items():
            c = g.cond(b)
            if c is None or len(g.succ[b]) != 2:
                continue
            r = self._cond_comparison(f, c, P)
            if r is None:
                ra = self._algo_range_guard(f, c, P)
                if ra is not None:
                    all_equal_if_true, rng_expr, calln = ra
                    differ = blk["succ"][1] if all_equal_if_true else blk["succ"][0]
                    if differ is not None and g.reaches_only_throw(differ):
                        ri_ = self.arg_input(f, rng_expr, P)
                        if ri_ is None:
                            found = self.carried_inputs(f, rng_expr, P)
                            ri_ = next(iter(found)) if len(found) == 1 else None
                        if ri_ is not None:
                            sites.append(dict(kind="call", block=b, idx=len(blk["el"]), li=ri_, ri=ri_, range=True,
                                              line=calln.get("l"), node=calln, callee="std algorithm over the range",
                                              codes=self._throw_code(g, differ), algo=True))
                continue
            equal_if_true, lhs, rhs, calln = r
            s_true, s_false = blk["succ"][0], blk["succ"][1]
            differ = s_false if equal_if_true else s_true
            if differ is None or not g.reaches_only_throw(differ):
                continue
            codes = self._throw_code(g, differ)
            li, ri = self.arg_input(f, lhs, P), self.arg_input(f, rhs, P)
            sites.append(dict(kind="branch", block=b, idx=len(blk["el"]), lhs=lhs, rhs=rhs, li=li, ri=ri,
                              codes=codes, line=calln.get("l"), node=calln))
        # call guards
        for b, blk in g.blocks.items():
            for i, n in enumerate(g.elements(b)):
                ci = call_info(u, n)
                if ci is None or ci.decl is None:
                    continue
                callee = u.func_of(ci.decl["id"])
                if callee is None or not callee.in_lib() or callee.id == f.id:
                    continue
                gs = self.summary(callee)
                if not gs:
                    continue
                actual = {}
                if ci.obj is not None:
                    actual[0] = ci.obj
                for k, a in enumerate(ci.args, 1):
                    actual[k] = a
                for pair in gs:
                    idxs = sorted(pair)
                    if any(k not in actual for k in idxs):
                        continue
                    if len(idxs) == 1:
                        # range summary: callee guards all elements of a range argument
                        a = self.arg_input(f, actual[idxs[0]], P)
                        if a is not None:
                            sites.append(dict(kind="call", block=b, idx=i, li=a, ri=a, range=True,
                                              line=n.get("l"), node=n, callee=callee.qn, codes={"via-callee"}))
                        continue
                    li, ri = self.arg_input(f, actual[idxs[0]], P), self.arg_input(f, actual[idxs[1]], P)
                    sites.append(dict(kind="call", block=b, idx=i, li=li, ri=ri, line=n.get("l"), node=n,
                                      callee=callee.qn, codes={"via-callee"}))
        return sites

    # -- range guard idiom ------------------------------------------------------------
    def range_guarded(self, f, rng_idx, sites):
        """All elements of range input rng_idx are compared with a reference element of the same range on
        every normal path (loop idiom).  Also accepts the (begin, end) pair of iterator parameters."""
        u, g, P = self.u, self.G(f), self.P(f)
        inputs = {i: (k, r) for i, k, r in self.inputs(f)}
        for s in sites:
            if s["kind"] != "branch":
                continue
            # one side rooted in a cursor local initialised from the range input, other side in the range input
            sides = []
            for e in (s["lhs"], s["rhs"]):
                p = P.path(e)
                r = P.root(p) if p else None
                sides.append((p, r))
            cursor = None
            ref_ok = False
            for p, r in sides:
                if r is None:
                    continue
                i = self.root_index(f, p, P)
                if i == rng_idx:
                    ref_ok = True
                elif r[0] == "var":
                    cursor = r
            if not (ref_ok and cursor):
                continue
            # cursor initialised from the range input (begin iterator or collection.begin())
            init_ok = False
            for n in f.all_nodes():
                if n["k"] == "VarDecl" and n["id"] == cursor[1] and kids(n):
                    if rng_idx in self.carried_inputs(f, kids(n)[0], P):
                        init_ok = True
            if not init_ok:
                continue
            # loop header: a block H with two successors that dominates the guard block and is reachable from it
            dom = g.dominators()
            gb = s["block"]
            heads = [h for h in dom.get(gb, ()) if h != gb and len(g.succ[h]) == 2 and
                     h in g.reachable(start=gb)]
            for h in heads:
                body_entry = g.blocks[h]["succ"][0]
                if body_entry is None:
                    continue
                # (i) from the body entry, H and normal exits are unreachable without passing the guard
                reach = g.reachable(start=body_entry, cut_blocks=[gb])
                if h in reach and gb != body_entry:
                    # reached the header again around the guard?
                    if g.path(body_entry, h, cut_blocks=[gb]) is not None:
                        continue
                if any(p in reach and p != gb for p in g.normal_exit_preds()):
                    continue
                # (ii) every normal exit is dominated by H
                if not all(h in dom.get(p, ()) for p in g.normal_exit_preds() if p in dom):
                    continue
                # (iii) the header condition mentions the cursor
                c = g.cond(h)
                if c is None or not any(n["k"] == "DeclRefExpr" and n["d"] == cursor[1] for n in walk(c)):
                    continue
                return s
        return None

    # -- summaries ---------------------------------------------------------------------
    def summary(self, f):
        """Set of frozensets of input indices {i,j} whose grids are compared on every normal path
        (frozenset({i}) for a range input all of whose elements are compared)."""
        if f.id in self.summ:
            return self.summ[f.id]
        if f.id in self.inprogress or f.cfg is None:
            return set()
        self.inprogress.add(f.id)
        try:
            ins = self.inputs(f)
            res = set()
            if len(ins) >= 2 or any(k == "range" for _, k, _ in ins):
                sites = self.guard_sites(f)
                g = self.G(f)
                idxs = [i for i, _, _ in ins]
                for a in range(len(idxs)):
                    for b in range(a + 1, len(idxs)):
                        pair = frozenset((idxs[a], idxs[b]))
                        cuts = [s["block"] for s in sites if s["li"] is not None and s["ri"] is not None and
                                frozenset((s["li"], s["ri"])) == pair]
                        if not cuts:
                            continue
                        reach = g.reachable(cut_blocks=cuts)
                        if not any(p in reach and p not in cuts for p in g.normal_exit_preds()):
                            res.add(pair)
                for i, k, _ in ins:
                    if k == "range":
                        if self.range_guarded(f, i, sites) is not None:
                            res.add(frozenset((i,)))
                        else:
                            cuts = [s["block"] for s in sites if s.get("range") and s["li"] == i]
                            if cuts:
                                reach = g.reachable(cut_blocks=cuts)
                                if not any(p in reach and p not in cuts for p in g.normal_exit_preds()):
                                    res.add(frozenset((i,)))
                # (begin, end) iterator pairs denote one range: a guard on `begin` covers the pair
                rng = [i for i, k, _ in ins if k == "range"]
                if len(rng) == 2 and frozenset((rng[0],)) in res:
                    res.add(frozenset(rng))
            self.summ[f.id] = res
            return res
        finally:
            self.inprogress.discard(f.id)


def is_entry(grd, f):
    d = f.decl
    if f.dependent or not f.in_lib() or f.cfg is None:
        return False
    if d.get("access") not in (None, "public"):
        return False
    if d.get("dtor") or d.get("lambdaop"):
        return False
    if d.get("ctor"):
        return False
    if d.get("copyassign") or d.get("moveassign"):
        return False
    if d["name"] in EXEMPT:
        return False
    if any(d["pqn"] == fw for fw in FORWARDERS):
        return False
    ins = grd.inputs(f)
    if len(ins) >= 2:
        return True
    return any(k == "range" for _, k, _ in ins)


def required_pairs(grd, f):
    """Pairs of inputs that must be guarded for entry point f."""
    ins = grd.inputs(f)
    rng = [i for i, k, _ in ins if k == "range"]
    objs = [i for i, k, _ in ins if k != "range"]
    req = []
    for a in range(len(objs)):
        for b in range(a + 1, len(objs)):
            req.append(frozenset((objs[a], objs[b])))
    if len(rng) == 2:
        # begin/end iterators of one range
        req.append(frozenset((rng[0],)))
    else:
        for r in rng:
            req.append(frozenset((r,)))
    return req


def write_sites_before_guard(grd, f, summary_pairs):
    """Obligation (b) for non-const member entry points: no write to *this is reachable before the guard."""
    u, g, P = grd.u, grd.G(f), grd.P(f)
    d = f.decl
    if d.get("const") or d.get("static") or d.get("record") is None:
        return []
    sites = grd.guard_sites(f)
    cut_at = {}
    for s in sites:
        if s["li"] is None or s["ri"] is None:
            continue
        b = s["block"]
        cut_at[b] = min(cut_at.get(b, 10 ** 9), s["idx"])
    reach = g.reachable(cut_blocks=list(cut_at))
    bad = []
    for b in reach:
        el = g.elements(b)
        lim = cut_at.get(b, len(el))
        for i, n in enumerate(el[:lim]):
            if _writes_this(u, f, n, P, grd):
                bad.append(n)
    return bad


def _writes_this(u, f, n, P, grd=None):
    if n["k"] in ("BinaryOperator", "CompoundAssignOperator") and (n.get("op", "").endswith("=") and
                                                                     n.get("op") not in ("==", "!=", "<=", ">=")):
        p = P.path(kids(n)[0])
        return p is not None and P.root(p) == ("this",)
    ci = call_info(u, n)
    if ci is None or ci.decl is None or ci.obj is None or ci.kind != "member":
        return False
    if ci.decl.get("const") or ci.decl.get("static"):
        return False
    p = P.path(ci.obj)
    if p is None or P.root(p) != ("this",):
        return False
    # a non-const member call on *this (or on one of its fields)
    callee = u.func_of(ci.decl["id"])
    if callee is not None and callee.in_lib() and grd is not None and is_entry(grd, callee):
        # an in-place library operator with its own grid-carrying operands (+=): it is an entry point itself,
        # its own guard precedes its own writes (checked on its own)
        return False
    return True


def run(chk, units):
    chk.rule("R-GRD.a", "every normal path of every public library function with >=2 grid-carrying inputs passes "
                        "a grid comparison of those inputs (or a call whose summary does) whose differ-outcome "
                        "only reaches a throw; range inputs: every element is compared with a reference element")
    chk.rule("R-GRD.b", "in non-const entry points no write to *this is reachable before the guard")
    chk.rule("R-GRD.c", "the exception thrown on the differ-outcome is BSplineException(DIFFERING_GRIDS)")
    entries = {}
    for u in units:
        grd = Grd(chk, u)
        for f in u.funcs:
            if not is_entry(grd, f):
                continue
            key = f.pkey
            ent = entries.setdefault(key, dict(pqn=f.pqn, insts=0, bad=[], ok=0, where=f.where()))
            ent["insts"] += 1
            req = required_pairs(grd, f)
            summ = grd.summary(f)
            missing = [p for p in req if p not in summ]
            ins = {i: (k, fmt_path(r)) for i, k, r in grd.inputs(f)}
            if missing:
                g = grd.G(f)
                sites = grd.guard_sites(f)
                cuts = [s["block"] for s in sites if s["li"] is not None and s["ri"] is not None and
                        frozenset((s["li"], s["ri"])) in missing]
                wit = None
                for p in g.normal_exit_preds():
                    pth = g.path(g.entry, p, cut_blocks=cuts)
                    if pth:
                        wit = g.describe_path(pth)
                        break
                ent["bad"].append(dict(instantiation=f.qn, unit=u.name,
                                       unguarded=[sorted(ins[i][1] for i in p) for p in missing],
                                       path=wit, guard_sites_seen=[dict(line=s["line"], kind=s["kind"],
                                                                        inputs=[s["li"], s["ri"]]) for s in sites]))
            else:
                ent["ok"] += 1
                ent["how"] = _how(grd, f, summ)
            # (b)
            if not f.decl.get("const") and not f.decl.get("static") and f.decl.get("record") is not None:
                if not write_sites_before_guard(grd, f, summ):
                    chk.ok("R-GRD.b", f.where(), "%s: no write to *this precedes the guard" % f.pqn, key=f.pkey)
            for n in write_sites_before_guard(grd, f, summ):
                chk.bad("R-GRD.b", f.loc(n), f.pqn, "write-before-guard",
                        "the target object is written before the grids of the operands have been compared, so a "
                        "refused operation no longer leaves its arguments unchanged",
                        witness=dict(instantiation=f.qn, unit=u.name))
            # (c)
            for s in grd.guard_sites(f):
                if s["kind"] == "branch" and s["li"] is not None and s["ri"] is not None and s["li"] != s["ri"]:
                    _check_code(chk, f, s, u)
        # also check the code at guard sites of non-entry guarding functions reached from entries
        # generator: supplied grid vs knots
        _generator(chk, grd, u, entries)
    for key, ent in sorted(entries.items()):
        if ent["bad"]:
            b = ent["bad"][0]
            chk.bad("R-GRD.a", ent["where"], ent["pqn"], "unguarded:" + "|".join("~".join(x) for x in b["unguarded"]),
                    "a normal path combines %s without comparing their grids (no guard, or the differ-outcome "
                    "does not throw)" % " / ".join(" and ".join(x) for x in b["unguarded"]),
                    witness=dict(b, instantiations_failing=len(ent["bad"]), instantiations=ent["insts"]))
        else:
            chk.ok("R-GRD.a", ent["where"], "%s: guarded on all normal paths in %d instantiation(s) (%s)" % (
                ent["pqn"], ent["insts"], ent.get("how", "")), key=key)
    return entries


def _how(grd, f, summ):
    s = grd.guard_sites(f)
    d = sorted({"%s@%s" % (x["kind"] if x["kind"] == "branch" else "via " + x.get("callee", "?").split("(")[0][-40:],
                           x["line"]) for x in s if x["li"] is not None and x["ri"] is not None})
    return ", ".join(d[:3])


def _check_code(chk, f, s, u):
    codes = s["codes"]
    want = "bspline::exceptions::BSplineException:DIFFERING_GRIDS"
    if f.pqn.startswith("bspline::BSplineGenerator"):
        return
    where = "%s:%s" % (C.rel(f.file), s["line"])
    if codes == {want}:
        chk.ok("R-GRD.c", where, "%s throws DIFFERING_GRIDS when the grids differ" % f.pqn, key=(f.pkey, s["line"]))
    else:
        chk.bad("R-GRD.c", where, f.pqn, "wrong-code",
                "grids that differ are refused with %s instead of BSplineException(DIFFERING_GRIDS)" % sorted(codes),
                witness=dict(instantiation=f.qn, unit=u.name))


def _generator(chk, grd, u, entries):
    """BSplineGenerator(knots, grid): the supplied grid is compared with the grid derived from the knots."""
    for f in u.funcs:
        d = f.decl
        if f.dependent or not d.get("ctor") or not d["pqn"].startswith("bspline::BSplineGenerator::BSplineGenerator"):
            continue
        if d.get("copyctor") or d.get("movector") or d.get("implicit"):
            continue
        gparams = [p for p in d["params"] if class_of_type(p["type"]) == "Grid"]
        vparams = [p for p in d["params"] if p["type"].startswith("std::vector<")]
        if not gparams or not vparams or f.cfg is None:
            continue
        key = f.pkey
        ent = entries.setdefault(key, dict(pqn=f.pqn, insts=0, bad=[], ok=0, where=f.where()))
        ent["insts"] += 1
        g, P = grd.G(f), grd.P(f)
        # which field is initialised from the grid parameter / the knots parameter
        gfield, kfield = None, None
        for it in f.inits:
            if it.get("init") is None or "name" not in it:
                continue
            for n in walk(it["init"]):
                if n["k"] == "DeclRefExpr" and n["d"] == gparams[0]["id"]:
                    gfield = it["name"]
                if n["k"] == "DeclRefExpr" and n["d"] == vparams[0]["id"]:
                    kfield = it["name"]

        def is_supplied(e):
            p = P.path(e)
            if p is None:
                return False
            if P.root(p) == ("var", gparams[0]["id"], gparams[0]["name"]):
                return True
            return p == ("f", ("this",), gfield)

        def is_derived(e, depth=0):
            e = strip(e)
            if e["k"] == "DeclRefExpr" and depth < 3:
                for n in f.all_nodes():
                    if n["k"] == "VarDecl" and n["id"] == e["d"] and kids(n):
                        return is_derived(kids(n)[0], depth + 1)
                return False
            if e["k"] in CTOR_KINDS and len(kids(e)) == 1 and depth < 3:
                dd = u.decls.get(e.get("d"))
                if dd and (dd.get("copyctor") or dd.get("movector")):
                    return is_derived(kids(e)[0], depth + 1)
            for n in walk(e):
                ci = call_info(u, n)
                if ci and ci.decl is not None:
                    callee = u.func_of(ci.decl["id"])
                    mentions = any((x["k"] == "DeclRefExpr" and x["d"] == vparams[0]["id"]) or
                                   (x["k"] == "MemberExpr" and x.get("n") == kfield) for x in walk(n))
                    if callee is not None and callee.in_lib() and grd.creates_grid(callee) and mentions:
                        return True
                    if ci.kind == "ctor" and ci.decl.get("pqn", "").startswith("bspline::support::Grid::Grid") and \
                            mentions and not ci.decl.get("copyctor"):
                        return True
            return False

        cuts = []
        for b, blk in g.blocks.items():
            c = g.cond(b)
            if c is None or len(g.succ[b]) != 2:
                continue
            r = grd._cond_comparison(f, c, P)
            if r is None:
                continue
            eq_if_true, lhs, rhs, calln = r
            differ = blk["succ"][1] if eq_if_true else blk["succ"][0]
            if differ is None or not g.reaches_only_throw(differ):
                continue
            codes = grd._throw_code(g, differ)
            if not all(c_.startswith("bspline::exceptions::BSplineException:") for c_ in codes):
                continue
            if (is_supplied(lhs) and is_derived(rhs)) or (is_supplied(rhs) and is_derived(lhs)):
                cuts.append(b)
        reach = g.reachable(cut_blocks=cuts)
        if not cuts or any(p in reach and p not in cuts for p in g.normal_exit_preds()):
            # Not a violation by itself: the constructor compares a grid with a KNOT VECTOR, and an element-wise validation
            # (every run of equal knots is the next grid point, nothing left over) is as good as building a second Grid and
            # comparing the two.  Which (knots, grid) pairs are accepted is decided semantically on all knot sequences and
            # every way the grid can differ (R-REG.val, generator_suite) - C08 runs that suite and needs this note.
            ent["ok"] += 1
            ent["how"] = ("no Grid-to-Grid comparison on every path: acceptance of (knots, grid) is decided by R-REG.val "
                          "(accepts exactly a grid equal to the distinct knots)")
            chk.notes["generator_grid_check_decided_semantically"] = True
        else:
            ent["ok"] += 1
            ent["how"] = "supplied grid compared with the grid generated from the knots"


# ------------------------------------------------------------------------------------------------
# forwarding: compound operators hand their own grid / interval index to every member operator
# ------------------------------------------------------------------------------------------------
def forwarding(chk, units):
    """The grid guard of a spline factor lives in SplineOperator::transform; it is reached only if every
    compound operator (product, sum, scalar multiple, ...) calls the transform of each of its member operators
    on every normal path, with its own grid parameter and its own interval index, unchanged."""
    rule = "R-GRD.fwd"
    chk.rule(rule, "every transform() of a class that holds member operators calls each member's transform() on all "
                   "normal paths with its own grid and interval-index parameters (so that the grid guard and the "
                   "position dependence of nested operators are always reached)")
    seen = {}
    for u in units:
        getters = getter_table(u)
        # member operators = fields whose class has a transform() itself
        has_transform = {d_.get("recqn") for d_ in u.decls.values() if d_["k"] == "fn" and d_["name"] == "transform"
                         and d_.get("recqn")}
        for f in u.funcs:
            d = f.decl
            if f.dependent or not f.in_lib() or f.cfg is None or d["name"] != "transform" or d.get("record") is None:
                continue
            rec = u.decls.get(d["record"])
            if rec is None:
                continue
            opfields = [fd for fd in rec.get("fields", ()) if fd["type"].replace("const ", "").strip() in has_transform]
            gparam = [p for p in d["params"] if class_of_type(p["type"]) == "Grid"]
            iparam = [p for p in d["params"] if p["type"].replace("const ", "") in ("unsigned long", "size_t")]
            if not opfields or not gparam or not iparam:
                continue
            g, P = CFG(f), Paths(u, f, getters)
            for fd in opfields:
                cuts = []
                for b in g.blocks:
                    for n in g.elements(b):
                        ci = call_info(u, n) if n["k"] in CALL_KINDS else None
                        if ci is None or ci.decl is None or ci.decl["name"] != "transform" or ci.obj is None:
                            continue
                        if P.path(ci.obj) != ("f", ("this",), fd["name"]) or len(ci.args) < 3:
                            continue
                        ga = P.path(ci.args[1])
                        ia = strip(ci.args[2])
                        if ga is None or P.root(ga) != ("var", gparam[0]["id"], gparam[0]["name"]):
                            continue
                        if ia is None or ia["k"] != "DeclRefExpr" or ia["d"] != iparam[-1]["id"]:
                            continue
                        cuts.append(b)
                reach = g.reachable(cut_blocks=cuts)
                key = (f.pkey, fd["name"])
                bad = any(p_ in reach and p_ not in cuts for p_ in g.normal_exit_preds())
                if bad:
                    chk.bad(rule, f.where(), f.pqn, "not-forwarded:%s" % fd["name"],
                            "a normal path of transform() does not call %s.transform(.., grid, intervalIndex) with the "
                            "unchanged grid and index parameters: a nested spline factor's grid guard (and any position "
                            "dependence) is skipped on that path" % fd["name"],
                            witness=dict(instantiation=f.qn, unit=u.name))
                else:
                    seen.setdefault(key, 0)
                    seen[key] += 1
    for (pkey, fname), n in sorted(seen.items()):
        chk.ok(rule, "%s:%d" % (C.rel(pkey[0]), pkey[1]), "member operator %s is forwarded to on every normal path "
               "(%d instantiation(s))" % (fname, n), key=(pkey, fname))
    return len(seen)
