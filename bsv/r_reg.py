"""R-REG: region evaluation.  Abstract interpretation of the extracted source over the finite
domain of order types (region representatives) x dependence sets, compared with specification
functions written from the property statements.  See DESIGN.md 4.3.

This module holds the World (object construction through the interpreted public constructors,
function lookup by public names) and the generic case runner; the suites live in r_reg_*.py."""
import itertools

from . import config as C
from .facts import AnalysisBroken
from .interp import (NAN, U64, Arr, Interp, Iter, LV, ModelUB, Obj, Opt, OutOfFragment, Sc, SharedPtr, Thrown, Vec,
                     box, copy_value, val)

BSE = "bspline::exceptions::BSplineException"


class SetupRefused(Exception):
    """A valid object that a suite needs could not be built through the public constructors: the constructor
    refuses valid input (a violation of C10/C11), not an analysis failure."""

    def __init__(self, f, case, outcome):
        super().__init__("valid input refused by %s: %r" % (f.pqn if f else "?", outcome))
        self.f, self.case, self.outcome = f, case, outcome


class Outcome:
    """Result of one abstract call: a value, an exception, or undefined behaviour in the model."""
    __slots__ = ("kind", "v", "cls", "code", "msg", "site")

    def __init__(self, kind, v=None, cls=None, code=None, msg=None, site=None):
        self.kind, self.v, self.cls, self.code, self.msg, self.site = kind, v, cls, code, msg, site

    def __repr__(self):
        if self.kind == "val":
            return "returns %s" % fmt(self.v)
        if self.kind == "throw":
            return "throws %s(%s)" % (self.cls.split("::")[-1], self.code)
        return "UNDEFINED BEHAVIOUR: %s" % self.msg

    def throws_lib(self, code=None):
        return self.kind == "throw" and self.cls == BSE and (code is None or self.code == code)


def fmt(v):
    v = val(v)
    if isinstance(v, Sc):
        return "nan" if v.v == NAN else ("?" if v.v is None else str(v.v))
    if isinstance(v, Opt):
        return "nullopt" if not v.has else "opt(%s)" % fmt(v.v)
    if isinstance(v, int) and v > (1 << 63):
        return "2^64-%d" % (U64 - v)
    if isinstance(v, Vec):
        return "[%s]" % ",".join(fmt(x) for x in v.items[:8])
    if isinstance(v, Obj):
        return v.cls.split("::")[-1].split("<")[0] + "{...}"
    return repr(v)


class World:
    def __init__(self, unit, scalar="double"):
        self.u = unit
        self.T = scalar
        self.I = Interp(unit, scalar)
        self.GRID = "bspline::support::Grid<%s>" % scalar
        self.SUP = "bspline::support::Support<%s>" % scalar
        self.evals = 0
        self._fn_cache = {}

    # -- lookup ---------------------------------------------------------------------
    def method(self, rec_qn, name, nparams=None, pred=None, required=True):
        key = (rec_qn, name, nparams, id(pred) if pred else None)
        if key in self._fn_cache and pred is None:
            return self._fn_cache[key]
        f = self.I.find_method(rec_qn, name, nparams, pred)
        if f is None and required:
            raise AnalysisBroken("anchor vanished: %s::%s (%s parameter(s)) is not instantiated in unit %s" % (
                rec_qn, name, nparams, self.u.name))
        if pred is None:
            self._fn_cache[key] = f
        return f

    def ctor(self, rec_qn, pred, what):
        rec = self.I.find_record(rec_qn)
        if rec is None:
            raise AnalysisBroken("anchor vanished: class %s is not instantiated" % rec_qn)
        for d in self.I.methods.get(rec["id"], ()):
            if d.get("ctor") and not d.get("deleted") and pred(d):
                return d
        raise AnalysisBroken("anchor vanished: constructor %s(%s)" % (rec_qn, what))

    def free(self, pqn, pred=None, required=True):
        for f in self.u.funcs:
            if not f.dependent and f.pqn == pqn and (pred is None or pred(f)):
                return f
        if required:
            raise AnalysisBroken("anchor vanished: no instantiation of %s matches" % pqn)
        return None

    # -- running ---------------------------------------------------------------------
    def run(self, thunk, what=None):
        self.evals += 1
        self.I.steps = 0
        del self.I.frames[:]
        try:
            return Outcome("val", thunk())
        except Thrown as t:
            return Outcome("throw", cls=t.cls, code=t.code, site=getattr(t, "site", None))
        except ModelUB as e:
            return Outcome("ub", msg=str(e), site=getattr(e, "site", None))
        except OutOfFragment as e:
            raise AnalysisBroken("left the decidable fragment while evaluating %s: %s" % (what or "?", e))
        except RecursionError:
            raise AnalysisBroken("recursion limit while evaluating %s" % (what or "?"))

    def call(self, f, this, args, what=None):
        return self.run(lambda: self.I.call(f, this, list(args)), what or f.qn)

    def mcall(self, obj, name, *args, nparams=None, pred=None):
        f = self.method(obj.cls, name, len(args) if nparams is None else nparams, pred)
        return self.call(f, obj, args)

    # -- object construction through the interpreted public constructors -----------------
    def grid_values(self, n, offset=0):
        return [Sc(2 * (i + offset), frozenset([("grid", i)])) for i in range(n)]

    def mk_grid(self, values):
        d = self.ctor(self.GRID, lambda d: len(d["params"]) == 1 and d["params"][0]["type"].startswith("std::vector<"),
                      "std::vector<T>")
        return self.run(lambda: self.I.construct(d, [box(Vec(list(values)))]), "Grid(std::vector)")

    def mk_support(self, grid, s, e):
        d = self.ctor(self.SUP, lambda d: len(d["params"]) == 3, "grid, start, end")
        return self.run(lambda: self.I.construct(d, [box(grid), s, e]), "Support(grid,s,e)")

    def need(self, outcome, what, f=None, case=None):
        """Value of a setup object that must be constructible (valid by the class invariant)."""
        if outcome.kind != "val":
            raise SetupRefused(f, case or dict(object=what), outcome)
        return outcome.v

    def need_grid(self, values):
        d = self.ctor(self.GRID, lambda d: len(d["params"]) == 1 and d["params"][0]["type"].startswith("std::vector<"),
                      "std::vector<T>")
        return self.need(self.mk_grid(values), "grid", self.I.func(d["id"]), dict(points=len(values)))

    def need_support(self, grid, s, e):
        d = self.ctor(self.SUP, lambda d: len(d["params"]) == 3, "grid, start, end")
        return self.need(self.mk_support(grid, s, e), "support", self.I.func(d["id"]), dict(window=(s, e)))

    def need_spline(self, order, support, coeffs):
        d = self.ctor(self.spline_cls(order), lambda d: len(d["params"]) == 2 and not d.get("copyctor") and
                      not d.get("movector"), "support, coefficients")
        return self.need(self.mk_spline(order, support, coeffs), "spline", self.I.func(d["id"]),
                         dict(order=order, coefficient_arrays=len(coeffs.items)))

    def spline_cls(self, order):
        return "bspline::Spline<%s, %d>" % (self.T, order)

    def mk_spline(self, order, support, coeffs):
        cls = self.spline_cls(order)
        d = self.ctor(cls, lambda d: len(d["params"]) == 2 and not d.get("copyctor") and not d.get("movector"),
                      "support, coefficients")
        return self.run(lambda: self.I.construct(d, [box(support), box(coeffs)]), "Spline(support, coefficients)")

    def coeffs(self, name, order, s, nint, value=None):
        """Coefficient vector of opaque atoms ('c', name, absolute interval, power)."""
        out = []
        for i in range(nint):
            out.append(Arr([Sc.atom(("c", name, s + i, j), value) for j in range(order + 1)]))
        return Vec(out)

    def spline_on(self, name, order, grid, s, e, value=None):
        sup = self.mk_support(grid, s, e)
        if sup.kind != "val":
            d = self.ctor(self.SUP, lambda d: len(d["params"]) == 3, "grid, start, end")
            raise SetupRefused(self.I.func(d["id"]), dict(window=(s, e)), sup)
        nint = max(e - s, 1) - 1
        sp = self.mk_spline(order, sup.v, self.coeffs(name, order, s, nint, value))
        if sp.kind != "val":
            d = self.ctor(self.spline_cls(order), lambda d: len(d["params"]) == 2 and not d.get("copyctor") and
                          not d.get("movector"), "support, coefficients")
            raise SetupRefused(self.I.func(d["id"]), dict(order=order, window=(s, e), coefficient_arrays=nint), sp)
        return sp.v

    # -- observation through public getters -------------------------------------------------
    def window(self, sup):
        """(start, end) of a Support through its public accessors."""
        a = self.mcall(sup, "getStartIndex")
        b = self.mcall(sup, "getEndIndex")
        if a.kind != "val" or b.kind != "val":
            return None
        return (val(a.v), val(b.v))

    def grid_of(self, sup):
        g = self.mcall(sup, "getGrid")
        return val(g.v) if g.kind == "val" else None

    def grid_points(self, grid):
        d = self.mcall(grid, "getData")
        if d.kind != "val":
            return None
        sp = val(d.v)
        return sp.target.items if isinstance(sp, SharedPtr) and sp.target is not None else None


def windows(n, with_empty=True):
    out = [(0, 0)] if with_empty else []
    if n > 8:
        # threshold extension (run_jobs): large grids are evaluated on representative windows only - whole grid, one
        # short at either end, inner, a short one at either end and a point-like one
        reps = [(0, n), (1, n), (1, n - 1), (0, 2), (n // 2, n // 2 + 1)]
        return out + [w_ for i, w_ in enumerate(reps) if w_ not in reps[:i]]
    for s in range(n):
        for e in range(s + 1, n + 1):
            out.append((s, e))
    return out


def index_reps(n):
    """Representatives of every order/adjacency/wrap-around class of an index argument relative to
    quantities in [0, n]."""
    reps = set(range(0, n + 3))
    for k in range(1, n + 4):
        reps.add(U64 - k)
    reps.update(((1 << 63) - 1, 1 << 63, (1 << 63) + 1))
    return sorted(reps)


class Cases:
    """Collects agreement / disagreement of code and specification per (function, clause)."""

    def __init__(self, chk, rule, world):
        self.chk, self.rule, self.w = chk, rule, world
        self.stats = {}

    def expect(self, f, clause, case, got, ok, want):
        """f: Func under test; clause: short name of the specification clause; case: abstract input (dict);
        got: Outcome; ok: bool; want: text of the specified outcome."""
        key = (f.pkey, f.pqn, clause)
        st = self.stats.get(key)
        if st is None:
            st = self.stats[key] = dict(n=0, bad=0, first=None, qn=f.qn, ub=0, ubfirst=None,
                                        sample=dict(case=_plain(case), got=repr(got) if got is not None else "-",
                                                    specified=want))
        st["n"] += 1
        if got is not None and got.kind == "ub":
            st["ub"] += 1
            if st["ubfirst"] is None:
                st["ubfirst"] = dict(case=_plain(case), got=repr(got), want="defined behaviour")
        if not ok:
            # which aspect of the specification failed (views of C10 / C14 count only theirs)
            aspect = "ub" if (got is not None and got.kind == "ub") else (
                "valid" if "invalid:" in want else ("unchanged" if "modified" in want else "spec"))
            by = st.setdefault("by", {})
            by[aspect] = by.get(aspect, 0) + 1
            st.setdefault("first_by", {}).setdefault(aspect, dict(case=_plain(case), got=repr(got), want=want))
            if got is not None and got.kind == "ub" and got.site is not None and got.site[0] != f.pkey:
                # undefined behaviour inside another repository function: report it where it happens
                # the originating clause is kept in the text, so that a property's view (clause_view) keeps exactly the
                # undefined behaviour reached from ITS clauses
                key2 = (got.site[0], got.site[1], "no undefined behaviour [reached from the clause: %s]" % clause)
                st2 = self.stats.get(key2)
                if st2 is None:
                    st2 = self.stats[key2] = dict(n=0, bad=0, first=None, qn=got.site[2], ub=0, ubfirst=None)
                st2["ub"] += 1
                st2["n"] += 1
                st2["bad"] += 1
                if st2["first"] is None:
                    st2["first"] = dict(case=_plain(case), got=repr(got), want="defined behaviour (reached through %s)"
                                        % f.pqn)
                if st2["ubfirst"] is None:
                    st2["ubfirst"] = st2["first"]
                return
            st["bad"] += 1
            if st["first"] is None:
                st["first"] = dict(case=_plain(case), got=repr(got), want=want)

    def flush(self):
        if self.chk is None:
            return self.stats  # worker process: hand the statistics back to the parent
        return flush_stats(self.chk, self.rule, self.stats)


def _plain(case):
    return {k: (v if isinstance(v, (int, str, tuple, list, bool)) or v is None else fmt(v)) for k, v in case.items()}


def merge_stats(into, stats):
    for key, st in stats.items():
        t = into.get(key)
        if t is None:
            into[key] = dict(st)
            continue
        t["n"] += st["n"]
        t["bad"] += st["bad"]
        t["ub"] = t.get("ub", 0) + st.get("ub", 0)
        if st.get("by"):
            tb = t.setdefault("by", {})
            for k_, v_ in st["by"].items():
                tb[k_] = tb.get(k_, 0) + v_
            fb = t.setdefault("first_by", {})
            for k_, v_ in st.get("first_by", {}).items():
                fb.setdefault(k_, v_)
        if t["first"] is None:
            t["first"] = st["first"]
        if t.get("ubfirst") is None:
            t["ubfirst"] = st.get("ubfirst")
    return into


def flush_stats(chk, rule, stats):
    total = 0
    for (pkey, pqn, clause), st in sorted(stats.items(), key=lambda kv: (kv[0][0], kv[0][2])):
        where = "%s:%d" % (C.rel(pkey[0]), pkey[1])
        total += st["n"]
        if st["bad"]:
            w = st["first"] or st.get("ubfirst") or dict(case={}, got="?", want="?")
            chk.bad(rule, where, pqn, clause,
                    "%s: on region %s the code %s, specified: %s (%d of %d regions disagree)" % (
                        clause, _case_txt(w["case"]), w["got"], w["want"], st["bad"], st["n"]),
                    witness=dict(abstract_case=w["case"], got=w["got"], want=w["want"],
                                 regions=st["n"], disagree=st["bad"], instantiation=st["qn"]))
        else:
            chk.ok(rule, where, "%s / %s: %d regions agree with the specification" % (
                pqn.split("::")[-1], clause, st["n"]), key=(pkey, clause),
                   sample=dict(at=where, function=pqn, clause=clause, regions=st["n"], verdict="holds",
                               one_region=st.get("sample")))
    return total


# ------------------------------------------------------------------------------------------------
# parallel driver: suites are split into jobs evaluated in forked workers (the loaded unit is shared
# copy-on-write); workers return per-(function, clause) statistics which the parent merges.
# ------------------------------------------------------------------------------------------------
_JOB_UNIT = None


def scalar_of(unit):
    return "vt::Arch" if (unit.name.startswith("arch_") or unit.name.endswith("_arch")) else "double"
BIGCONV_CLAUSE = "integers enter the scalar type through static_cast of a value that fits an int"
RAWCMP_CLAUSE = "scalar values are compared with the scalar type's own operators, never byte-wise"


def _job(args):
    modname, fname, kwargs = args
    import importlib
    mod = importlib.import_module(modname)
    w = World(_JOB_UNIT, scalar_of(_JOB_UNIT))
    try:
        stats = getattr(mod, fname)(None, w, None, **kwargs)
        for ev in w.I.rawcmp:
            if ev is None:
                continue
            key = (ev[0], ev[1], RAWCMP_CLAUSE)
            st = stats.get(key)
            if st is None:
                st = stats[key] = dict(n=0, bad=0, qn=ev[2], ub=0, ubfirst=None, first=dict(
                    case=dict(line=ev[3]), got="memcmp over the storage of scalars decides the result",
                    want="T's operator== (bit patterns of equal values differ: -0.0 / +0.0; NaN)"))
            st["n"] += 1
            st["bad"] += 1
        for ev in w.I.bigconv:
            if ev is None:
                continue
            key = (ev[0], ev[1], BIGCONV_CLAUSE)
            st = stats.get(key)
            if st is None:
                st = stats[key] = dict(n=0, bad=0, qn=ev[2], ub=0, ubfirst=None, first=dict(
                    case=dict(line=ev[3], integer=ev[4]), got="converts the integer %d to the scalar type" % ev[4],
                    want="only integers that fit an int are converted (the documented route is construction from "
                         "an int: a type offering just that narrows larger values silently)"))
            st["n"] += 1
            st["bad"] += 1
        return ("ok", stats, w.evals, w.I.executed, w.I.scaled,
                {k_: (sorted(v_[0]), v_[1], v_[2]) for k_, v_ in w.I.thresholds.items()})
    except SetupRefused as e:
        f = e.f
        key = (f.pkey, f.pqn, "valid input is never refused") if f is not None else (("?", 0), "?", "valid input")
        st = dict(n=1, bad=1, qn=f.qn if f else "?", ub=0, ubfirst=None,
                  first=dict(case=_plain(e.case), got=repr(e.outcome), want="the object (the state is valid)"))
        return ("ok", {key: st}, w.evals, w.I.executed, w.I.scaled)
    except AnalysisBroken as e:
        return ("broken", str(e), 0)


INV_CLAUSES = ("succeeds iff", "accepts exactly", "accepts a strictly", "refuses a null", "valid", "move construction",
               "move assignment", "move-assignment", "never refused", "needs >= p+1 knots", "assignment from a support",
               "leaves both operands", "is refused with")
VAL_CLAUSES = ("unchanged", "identical state", "does not depend on earlier", "whether or not", "one object as both operands",
               "referring to one of a's own coefficients", "leaves both operands", "equals its copy", "is refused with")


def _aspect_view(stats, clauses, aspects):
    out = {}
    for key, st in stats.items():
        st2 = dict(st)
        if not any(c in key[2] for c in clauses):
            by = st.get("by", {})
            st2["bad"] = sum(by.get(a, 0) for a in aspects)
            if st2["bad"]:
                st2["first"] = next((st.get("first_by", {}).get(a) for a in aspects if st.get("first_by", {}).get(a)),
                                    st.get("first") or st.get("ubfirst"))
        out[key] = st2
    return out


def clause_view(*keywords):
    """Only the clauses a property states count (a suite shared between properties also evaluates the others)."""
    def view(stats):
        return {k: v for k, v in stats.items() if any(w_ in k[2] for w_ in keywords)}
    return view


# C11: acceptance conditions (both directions) of the validating entry points
ACC_CLAUSES = ("succeeds iff", "accepts exactly", "accepts a strictly", "refuses a null", "never refused", "needs >= p+1 knots",
               "is refused with", "default boundaries", "constructor accepts", "scalar values are compared")
# C15: predicates
PRED_CLAUSES = ("<=>", "equality", "!= is the negation", "a grid is never empty", "hasSameGrid", "isZero", "checkOverlap",
                "reflexive", "equals its copy", "a == b", "moved-from spline is zero", "moved-from spline equals",
                "moved-from spline overlaps", "whether or not", "scalar values are compared")
# C08: comparisons of grids and refusals across grids
GRID_CLAUSES = ("hasSameGrid", "differing grids", "DIFFERING_GRIDS", "grid equality", "!= is the negation",
                "logically", "is refused with", "equality <=>", "scalar values are compared")
# C13 (validity suite part): what happens to a support's grid and window under copy / move / assignment
WINDOW_CLAUSES = ("move construction transfers the window", "move assignment transfers the window",
                  "assignment from a support", "self move-assignment leaves a valid support")


def inv_view(stats):
    """C10's view: clauses about accepted states / validity count in full; of every other clause only the failures in
    which an object ends up invalid or the evaluation is undefined (a wrong but valid result is not an invariant break)."""
    return _aspect_view(stats, INV_CLAUSES, ("ub", "valid"))


def val_view(stats):
    """C14's view: clauses about operands staying unchanged / history independence / aliasing count in full; of every other
    clause only the failures in which an operand was modified."""
    return _aspect_view(stats, VAL_CLAUSES, ("unchanged",))


def ub_view(stats, accessor_clauses=("at:", "absoluteFromRelative", "relativeFromAbsolute", "intervalIndexFromAbsolute",
                                     "front", "back", "findElement", "evaluation at an unordered")):
    """C09's view of the statistics: only undefined behaviour counts as disagreement, except for the checked
    accessors / conversions whose clause *is* 'throws or reports not-contained for every out-of-view index'."""
    out = {}
    for key, st in stats.items():
        clause = key[2]
        st2 = dict(st)
        if not clause.startswith(accessor_clauses):
            st2["bad"] = st.get("ub", 0)
            st2["first"] = st.get("ubfirst") if st.get("ub", 0) else None
        out[(key[0], key[1], "no undefined behaviour: " + clause)] = st2
    return out


RULE_TEXT = {
    "*": "R-REG: for every (function, clause) pair the extracted source, evaluated abstractly on every region "
         "(order/adjacency/wrap-around type of the integer inputs, placement of the support windows, position or "
         "abstract value of scalar inputs), gives the outcome the specification function prescribes "
         "(value / not-contained / which exception / dependence set); an outcome 'undefined behaviour' never agrees",
    "R-REG.ub": "R-REG (C09 view): on every region the abstract evaluation stays defined: no out-of-range subscript, "
                "uninitialised read, null / empty-optional dereference, invalid iterator operation, signed overflow; "
                "checked accessors throw or report not-contained for every out-of-view index",
    "R-REG.inv": "R-REG (C10 view): constructors accept exactly the invariant states; every object produced or touched "
                 "by an evaluated operation (failing ones included) satisfies the class invariant afterwards",
    "R-REG.unchanged": "R-REG (C14 view): the state of every operand is identical before and after each evaluated "
                       "operation; refused in-place operations leave the target unchanged",
    "R-REG.cdb": "R-REG (C01: the generated functions are the Cox-de Boor B-splines): base case (indicator functions), the "
                 "recursion step as an exact linear map on opaque lower-order splines, and exact equality of the generated "
                 "functions with the reference recursion on every knot multiplicity pattern",
    "R-REG.kernel": "R-REG (values of the integration / evaluation kernels): Spline::operator()(x), LinearForm{}(a) and "
                    "ScalarProduct{}(a, b) with b running over unit coefficient vectors, evaluated with opaque coefficients of a "
                    "and exact rational grid points: the result's affine form must have exactly the specified rational weights "
                    "((x-xm)^p; 2 h^(p+1)/(p+1) for even p; 2 h^(i+j+1)/(i+j+1) for even i+j) on every combination of degree+1 "
                    "distinct interval widths; the kernels use ring operations only (no comparison of, no division by data)",
    "R-REG.sys": "R-REG (C12 view): interpolate<T, order, vt::RecSolver<T>> evaluated abstractly for 2..4(5) nodes, every "
                 "combination of order+1 distinct interval widths, the support as a window of a larger grid, the default and "
                 "(sampled) every admissible boundary set: the recorded augmented matrix [M | b] has the same reduced row "
                 "echelon form (exact rationals; right-hand sides as linear forms in the opaque ordinates and boundary "
                 "values) as the system of the promised conditions, and the result's coefficients are the solver's unknowns",
    "R-REG.arch": "R-REG on the instantiation with the scalar archetype vt::Arch: grids, supports, evaluation, validity, "
                  "arithmetic, scalar forms, linearCombination, predicates, generator, interpolation argument checks and the "
                  "operator / bilinear-form / linear-form cases of drivers/cases.h "
                  "meet the same specifications as the instantiation with double (archetype operators act on the "
                  "abstract scalar domain)",
    "R-REG.divzero": "R-REG (C19 view): generating B-splines from every knot sequence (all multiplicity patterns up to the "
                     "length bound, orders 0..3) never divides by a value that is exactly zero - an exact field type has "
                     "no infinity, so the zero-width guards must precede the division",
    "R-REG.gen": "R-REG (C01 view): for every knot multiplicity pattern the generator returns m-p-1 valid splines, the "
                 "i-th supported exactly on the knot span [t_i, t_{i+p+1}], identical for both construction routes",
    "R-REG.const": "constant propagation through faculty / facultyRatio / binomialCoefficient for arguments 0..9 equals "
                   "n!, a!/b!, C(n,k)",
}


def run_jobs(chk, unit, rule, jobs, procs=None, view=None, _extension=False):
    """jobs: list of (module name, suite function name, kwargs).  Returns number of regions evaluated."""
    import multiprocessing as mp
    import os
    global _JOB_UNIT
    _JOB_UNIT = unit
    procs = procs or min(len(jobs), int(os.environ.get("BSV_PROCS", "14")))
    stats = {}
    if procs <= 1 or len(jobs) <= 1:
        res = [_job(j) for j in jobs]
    else:
        ctx = mp.get_context("fork")
        with ctx.Pool(procs) as pool:
            res = pool.map(_job, jobs, chunksize=1)
    evals = 0
    for r in res:
        if r[0] == "broken":
            raise AnalysisBroken(r[1])
        merge_stats(stats, r[1])
        evals += r[2]
        chk.executed |= r[3]
        if len(r) > 4 and r[4]:
            cur = set(chk.notes.get("index_arithmetic_outside_order_type_fragment", []))
            chk.notes["index_arithmetic_outside_order_type_fragment"] = sorted(cur | set(r[4]))
    # the small-model argument: index code only compares its integer inputs with each other and with small constants.
    # A comparison of a run-time integer with a constant beyond the evaluated sizes must have been seen going BOTH ways,
    # otherwise the regions up to the size bound do not cover the code behind it (honest answer: not analysed)
    th = {}
    for r in res:
        if len(r) > 5:
            for site, (outs, k_, pqn) in r[5].items():
                t = th.setdefault(site, [set(), k_, pqn])
                t[0] |= set(outs)
    one = [(site, t) for site, t in sorted(th.items()) if len(t[0]) < 2]
    if one and not _extension:
        # extend the size bound past the threshold (sparse windows) for the suites of this call and merge
        ks = sorted({t[1] for _, t in one if t[1] <= 40})
        if ks:
            ext, seen = [], set()
            for (mod, fn, kw) in jobs:
                if "ns" not in kw:
                    continue
                base = {k_: v_ for k_, v_ in kw.items() if k_ not in ("ns",)}
                key = (mod, fn, repr(sorted(base.items(), key=lambda kv: kv[0])))
                if key in seen:
                    continue
                seen.add(key)
                for k_ in ks:
                    ext.append((mod, fn, dict(base, ns=[k_ + 2])))
            if ext:
                chk.notes["size_bound_extended_past_threshold"] = sorted(set(chk.notes.get(
                    "size_bound_extended_past_threshold", []) + ks))
                return run_jobs(chk, unit, rule, list(jobs) + ext, procs=procs, view=view, _extension=True)
    if one:
        site, t = one[0]
        raise AnalysisBroken("%s:%s in %s compares a run-time integer with the constant %d and went only one way on every "
                             "evaluated region: the size bound of the region evaluation does not cover the code behind this "
                             "threshold" % (C.rel(site[0][0]), site[1], t[2], t[1]))
    chk.notes["abstract_calls"] = chk.notes.get("abstract_calls", 0) + evals
    if view is not None:
        stats = view(stats)
    chk.rule(rule, RULE_TEXT.get(rule, RULE_TEXT["*"]))
    n = flush_stats(chk, rule, stats)
    chk.regions += n
    return n


def _case_txt(c):
    return "{" + ", ".join("%s=%s" % (k, fmt(v) if not isinstance(v, (str, tuple, list)) else v)
                           for k, v in c.items()) + "}"
