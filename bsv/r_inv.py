"""R-INV: field-write census for the invariant-carrying classes (Grid, Support, Spline).

The induction over histories needs completeness: *every* piece of code that can write a field of
these classes is accounted for.  Private fields can only be written inside the classes (and by
code that receives a non-const reference to an element), all of which is parsed.  Each writer is
  E  evaluated abstractly by the R-REG suites on all regions (results observed valid), or
  B  a defaulted copy / move special member (member-wise whole-object transfer), or
  D  an element-value write of scalar type reached through element access / iteration of the
     coefficient storage (cannot change any size).
Anything else is an unclassified writer -> VIOLATION."""
from . import config as C
from .ast import CALL_KINDS, CTOR_KINDS, call_info, class_of_type
from .facts import AnalysisBroken, kids, strip, walk

INV_CLASSES = ("bspline::support::Grid<", "bspline::support::Support<", "bspline::Spline<")


def _inv_fields(u):
    """field decl id -> (class qn, field name, type) for fields of the invariant classes."""
    out = {}
    for d in u.decls.values():
        if d["k"] == "rec" and d.get("complete") and not d.get("dependent") and d["qn"].startswith(INV_CLASSES):
            for f in d.get("fields", ()):
                out[f["id"]] = (d["qn"], f["name"], f["type"])
    return out


def _field_of(u, e, fields, aliases):
    """The invariant field that lvalue expression e designates (or an element of it): (field id, is_element)."""
    e = strip(e)
    depth = 0
    is_elem = False
    while e is not None and depth < 12:
        depth += 1
        k = e["k"]
        if k == "MemberExpr" and e.get("d") in fields:
            return e["d"], is_elem
        if k == "DeclRefExpr" and e.get("d") in aliases:
            fid, el = aliases[e["d"]]
            return fid, (is_elem or el)
        if k in CALL_KINDS:
            ci = call_info(u, e)
            if ci is None or ci.decl is None:
                return None
            nm = ci.decl["name"]
            if ci.kind == "member" and nm in ("operator[]", "at", "front", "back", "operator*", "begin", "end",
                                              "operator->", "data") and ci.obj is not None:
                is_elem = True
                e = strip(ci.obj)
                continue
            if ci.decl["qn"].startswith(("std::move<", "std::forward<")) and ci.args:
                e = strip(ci.args[0])
                continue
            return None
        if k == "UnaryOperator" and e.get("op") == "*":
            is_elem = True
            e = strip(kids(e)[0])
            continue
        if k == "ArraySubscriptExpr":
            is_elem = True
            e = strip(kids(e)[0])
            continue
        return None
    return None


def census(chk, units, executed):
    rule = "R-INV"
    chk.rule(rule, "every write site of a data member of Grid / Support / Spline lies in a function that the region "
                   "evaluator exercised on all regions (E), in a defaulted copy/move special member (B), or is an "
                   "element-value write that cannot change a size (D); Grid has no move operations")
    sites = {}
    for u in units:
        fields = _inv_fields(u)
        if not fields:
            raise AnalysisBroken("anchor vanished: no data members of Grid/Support/Spline found in unit %s" % u.name)
        for f in u.funcs:
            if f.dependent or not f.in_repo():
                continue
            # aliases: non-const reference / iterator locals bound to a field or an element of it
            aliases = {}
            for n in f.all_nodes():
                if n["k"] == "VarDecl" and kids(n):
                    t = u.types[n["t"]]
                    if (t.endswith("&") and not t.startswith("const ")) or ("__normal_iterator<" in t and
                                                                            "__normal_iterator<const " not in t) or (
                            t.endswith("*") and not t.startswith("const ")):
                        r = _field_of(u, kids(n)[0], fields, aliases)
                        if r:
                            aliases[n["id"]] = r
            found = []
            for it in f.inits:
                if it.get("field") in fields:
                    found.append((it["field"], False, it.get("init") or f.body, "initialiser"))
            for n in f.all_nodes():
                k = n["k"]
                if k in ("BinaryOperator", "CompoundAssignOperator") and n.get("op", "").endswith("=") and \
                        n.get("op") not in ("==", "!=", "<=", ">="):
                    r = _field_of(u, kids(n)[0], fields, aliases)
                    if r:
                        found.append((r[0], r[1], n, "assignment"))
                elif k == "UnaryOperator" and n.get("op") in ("++", "--"):
                    r = _field_of(u, kids(n)[0], fields, aliases)
                    if r:
                        found.append((r[0], r[1], n, "increment"))
                elif k in CALL_KINDS:
                    ci = call_info(u, n)
                    if ci is None or ci.decl is None or ci.kind != "member" or ci.obj is None:
                        continue
                    if ci.decl.get("const") or ci.decl.get("static"):
                        continue
                    r = _field_of(u, ci.obj, fields, aliases)
                    if r:
                        found.append((r[0], r[1], n, "non-const call %s" % ci.decl["name"]))
            for fid, is_elem, n, how in found:
                cls, fname, ftype = fields[fid]
                key = (f.pkey, fname, n.get("l"), how.split(" ")[0])
                st = sites.setdefault(key, dict(f=f, cls=cls, field=fname, how=how, node=n, elem=is_elem, klass=None))
                d = f.decl
                scalar_elem = False
                if is_elem and n["k"] in ("BinaryOperator", "CompoundAssignOperator"):
                    lt = u.types[kids(n)[0]["t"]] if kids(n)[0].get("t") is not None else ""
                    scalar_elem = class_of_type(lt) is None and not lt.startswith(("std::vector<", "std::shared_ptr<"))
                if d.get("defaulted") and (d.get("copyctor") or d.get("movector") or d.get("copyassign") or
                                            d.get("moveassign")):
                    st["klass"] = "B"
                elif scalar_elem:
                    st["klass"] = "D"
                elif f.pkey in executed:
                    st["klass"] = "E"
    n_ok = 0
    for key, st in sorted(sites.items(), key=lambda kv: (kv[0][0][0], kv[0][2] or 0)):
        f, n = st["f"], st["node"]
        where = "%s:%s" % (C.rel(f.file), n.get("l"))
        if st["klass"]:
            n_ok += 1
            chk.ok(rule, where, "%s writes %s (%s): class %s" % (f.pqn, st["field"], st["how"], st["klass"]), key=key)
        else:
            chk.bad(rule, where, f.pqn, "unclassified-write:%s" % st["field"],
                    "write to invariant-carrying member %s (%s) in a function that is neither region-evaluated, nor a "
                    "defaulted whole-object transfer, nor an element-value write" % (st["field"], st["how"]),
                    witness=dict(instantiation=f.qn))
    grid_move(chk, units, rule)
    return n_ok


def grid_move(chk, units, rule="R-INV.gridmove"):
    """Grid must have no usable move operation (a moved-from shared_ptr would be null: every accessor of a
    moved-from grid would dereference a null pointer)."""
    chk.rule(rule, chk.rules.get(rule, {}).get("text") or
             "Grid has no usable move constructor / move assignment (a moved-from grid would hold a null data pointer)")
    n_ok = 0
    for u in units:
        for d in u.decls.values():
            if d["k"] == "fn" and d.get("recqn", "").startswith("bspline::support::Grid<") and (
                    d.get("movector") or d.get("moveassign")) and not d.get("dependent"):
                where = "%s:%d" % (C.rel(d["pfile"]), d["pline"])
                if d.get("deleted"):
                    n_ok += 1
                    chk.ok(rule, where, "Grid move operation is deleted", key=("gridmove", d["pline"]))
                else:
                    chk.bad(rule, where, d["pqn"], "grid-move",
                            "Grid has a usable move operation: a moved-from grid would hold a null data pointer",
                            witness=dict(instantiation=d["qn"]))
    return n_ok
