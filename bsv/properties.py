"""Property checks: each function composes rule engines into the verdict for one property."""
from . import config as C
from . import facts as F
from .facts import AnalysisBroken
from .report import Check


def C19():
    from . import r_arch
    chk = Check("C19", "proof",
                "R-ARCH: the compiler's accept/reject decision on the current headers, instantiated with a "
                "minimal scalar archetype offering exactly the documented operations, for every function "
                "pattern of the core headers and the generic interpolate (clause decided: 'compile for any "
                "scalar type that offers only ...'; 'results are exact with an exact field type' is run-time "
                "and not decided)",
                checker_cmd="bsv-dump (clang 14 front end) on drivers/drv_arch.cpp with and without "
                            "-DBSPLINE_ADD_TEST_CHECKS; clang++ -fsyntax-only on drivers/neg_controls.cpp")
    chk.trust("clang 14 C++17 front end (g++ 12 in the thorough tier)",
              "vt::Arch (drivers/arch.h) is the documented requirement list, kept tight by the negative controls")
    chk.assume("a scalar type offering a superset of vt::Arch's operations accepts every program vt::Arch accepts "
               "(the library has no SFINAE on scalar capabilities; checked: enable_if only tests is_operator_v / "
               "is_spline_v)")
    names = ["arch_on", "arch_off"]
    units = r_arch.positive_witness(chk, names)
    r_arch.negative_controls(chk)
    if len(units) == len(names):
        ncov = r_arch.coverage(chk, units)
        chk.floor("R-ARCH.cov", ncov, 150, "function patterns instantiated with the archetype")
        r_arch.lint(chk, units)
        if C.tier() == "thorough":
            r_arch.gxx_witness(chk)
    return chk


ALL = {"C19": C19}


def _lib_units(extra=()):
    names = ["dbl_on", "dbl_off"] + list(extra)
    us = F.load_many(names)
    return [us[n] for n in names]


def C08():
    from . import r_grd
    chk = Check("C08", "other",
                "R-GRD: must-pass-through of a grid comparison on every normal path of every public library "
                "function with two or more grid-carrying inputs (derived from the signatures), with call-graph "
                "summaries; decided on the CFG of every instantiation for all inputs",
                checker_cmd="bin/check C08")
    units = _lib_units()
    chk.units = [u.name for u in units]
    ents = r_grd.run(chk, units)
    chk.floor("R-GRD.a", len(ents), 14, "entry points with >=2 grid-carrying inputs")
    # (d) the comparison used by the guards is logical grid equality, symmetric, for every way two grids can
    # differ; and the refusing operations throw / leave operands unchanged on representative placements
    from . import r_reg
    chk.rule("R-REG.grid", "Grid::operator==/!= evaluated abstractly: equal iff same points (same object, copy, equal "
                           "data in a distinct object) and unequal for every way two grids can differ, both operand "
                           "orders")
    chk.trust(*REG_TRUST)
    u = units[1]
    nmax = 6 if C.tier() == "thorough" else 4
    tot = r_reg.run_jobs(chk, u, "R-REG.grid", _jobs("r_reg_sup", "grid_suite", range(2, nmax + 1), maxlen=nmax - 2,
                                                     ctors=False))
    tot += r_reg.run_jobs(chk, u, "R-REG.sup", _jobs("r_reg_sup", "support_suite", range(2, 5), nmax=4))
    jobs = [("bsv.r_reg_spl", "arithmetic_suite", dict(nmax=4, order_pairs=(pr,), ns=[], fixed=True))
            for pr in ((1, 1), (2, 1), (0, 2))]
    jobs += _jobs("r_reg_spl", "lincomb_suite", [3], nmax=3)
    tot += r_reg.run_jobs(chk, u, "R-REG.refuse", jobs)
    chk.note("regions_evaluated", tot)
    return chk


ALL["C08"] = C08


def _jobs(mod, fn, ns, **kw):
    """One job per grid size (fixed=False) plus one job for the size-independent cases."""
    jobs = [("bsv." + mod, fn, dict(kw, ns=[n], fixed=False)) for n in ns]
    jobs.append(("bsv." + mod, fn, dict(kw, ns=[], fixed=True)))
    return jobs


def C13():
    from . import r_reg, r_reg_sup
    chk = Check("C13", "proof",
                "R-REG: abstract evaluation of every method of Support (and the Grid accessors it uses) from the "
                "extracted source over the finite domain of order/adjacency/wrap-around types of its integer "
                "arguments, compared with specification functions written from the statement (hull, common grid "
                "points, mutually inverse conversions, 'not contained' for every other index incl. 2^64-1)",
                checker_cmd="bin/check C13 (bsv/interp.py over the statement trees of unit dbl_off / dbl_on)")
    chk.trust("bsv-dump extraction (clang 14 AST)", "bsv/interp.py semantics of the C++ subset and its models of "
              "std::vector/optional/shared_ptr/min/max/lower_bound", "the specification functions in bsv/r_reg_sup.py")
    chk.assume("small-model argument: Support/Grid code only compares its integer inputs, takes min/max and adds or "
               "subtracts them or 0/1/2 (checked: anything else leaves the fragment -> exit 2), so its behaviour "
               "depends only on the order/adjacency/wrap type of {0,start,end,size,index}; every such type has a "
               "representative with size<=nmax or at the top of the 64-bit range")
    nmax = 8 if C.tier() == "thorough" else 6
    names = ["dbl_off", "dbl_on"] if C.tier() == "thorough" else ["dbl_off"]
    total = 0
    for n in names:
        u = F.load(n)
        chk.units.append(n)
        total += r_reg.run_jobs(chk, u, "R-REG.sup", _jobs("r_reg_sup", "support_suite", range(2, nmax + 1), nmax=nmax))
        total += r_reg.run_jobs(chk, u, "R-REG.grid", _jobs("r_reg_sup", "grid_suite", range(2, nmax + 1),
                                                            maxlen=nmax - 2, ctors=False))
    chk.note("oracle_self_check_triples", r_reg_sup.check_oracle(6 if C.tier() == "thorough" else 5))
    chk.note("regions_evaluated", total)
    chk.note("grid_size_bound", nmax)
    chk.exhaustive = True
    chk.floor("R-REG.sup", chk.rules["R-REG.sup"]["instances"], 25, "(function, clause) obligations on Support")
    return chk


ALL["C13"] = C13


REG_TRUST = ("bsv-dump extraction (clang 14 AST of the instantiations in drivers/drv_double.cpp)",
             "bsv/interp.py: semantics of the interpreted C++ subset and its models of std containers/algorithms",
             "the specification functions in bsv/r_reg_*.py (written from the property statement)")
REG_ASSUME = ("small-model argument: index code only compares its integer inputs and adds/subtracts them or small "
              "constants (anything else leaves the fragment -> exit 2), so its behaviour depends only on the "
              "order/adjacency type of the window bounds; all such types occur for grids up to the size bound",
              "scalar arithmetic is abstracted to dependence sets: which inputs a result is computed from is decided, "
              "the arithmetic performed with them is not")


def _reg_unit_names():
    return ["dbl_off", "dbl_on"] if C.tier() == "thorough" else ["dbl_off"]


def C02():
    from . import r_reg
    chk = Check("C02", "other",
                "R-REG (interval selection and end points): Spline::operator(), front, back evaluated abstractly for "
                "every window, every abscissa position (each grid point, each gap, both outsides, unordered) and "
                "orders 0..2; the result must be 0 outside the closed support and otherwise depend on exactly the "
                "coefficients of ONE interval containing x and that interval's two end points. The Horner "
                "arithmetic itself is not decided.")
    chk.trust(*REG_TRUST)
    chk.assume(*REG_ASSUME)
    nmax = 7 if C.tier() == "thorough" else 5
    total = 0
    for n in _reg_unit_names():
        u = F.load(n)
        chk.units.append(n)
        total += r_reg.run_jobs(chk, u, "R-REG.eval", _jobs("r_reg_spl", "eval_suite", range(2, nmax + 1), nmax=nmax,
                                                            orders=(0, 1, 2, 3)))
    chk.note("regions_evaluated", total)
    chk.note("grid_size_bound", nmax)
    chk.exhaustive = True
    chk.floor("R-REG.eval", chk.rules["R-REG.eval"]["instances"], 5, "(function, clause) obligations")
    return chk


def C15():
    from . import r_reg
    chk = Check("C15", "other",
                "R-REG (predicate logic): checkOverlap for all window pairs on one grid (same object / equal grid in "
                "a distinct object) against 'share at least one interval'; isZero over coefficient outcomes "
                "{zero, non-zero, unordered}; Spline/Support/Grid == and != against the statement, incl. symmetry, "
                "reflexivity, copy-equality, and every way two grids can differ")
    chk.trust(*REG_TRUST)
    chk.assume(REG_ASSUME[0], "reflexivity needs coefficients that equal themselves (no NaN)")
    nmax = 6 if C.tier() == "thorough" else 4
    total = 0
    for n in _reg_unit_names():
        u = F.load(n)
        chk.units.append(n)
        total += r_reg.run_jobs(chk, u, "R-REG.pred", _jobs("r_reg_spl", "predicate_suite", range(2, nmax + 1),
                                                            nmax=nmax))
        total += r_reg.run_jobs(chk, u, "R-REG.grid", _jobs("r_reg_sup", "grid_suite", range(2, nmax + 1),
                                                            maxlen=nmax - 2, ctors=False))
        total += r_reg.run_jobs(chk, u, "R-REG.sup", _jobs("r_reg_sup", "support_suite", range(2, min(nmax, 4) + 1),
                                                           nmax=min(nmax, 4)))
    chk.note("regions_evaluated", total)
    chk.exhaustive = True
    chk.floor("R-REG.pred", chk.rules["R-REG.pred"]["instances"], 6, "(function, clause) obligations")
    return chk


def C03():
    from . import r_reg
    chk = Check("C03", "other",
                "R-REG (framing of spline arithmetic): a*b, a+b, a-b, +=, -=, cross-order =, scalar forms and "
                "linearCombination evaluated abstractly for all window placements (nested, overlapping, touching, "
                "gap, point-like, interval-free; equal grids in distinct objects) and several order pairs; every "
                "result coefficient must depend on exactly the operand coefficients of the same absolute interval "
                "and power the pointwise operation prescribes, be the constant zero elsewhere, leave operands "
                "unchanged and yield a valid spline. Signs and numeric values are not decided.")
    chk.trust(*REG_TRUST)
    chk.assume(*REG_ASSUME)
    nmax = 6 if C.tier() == "thorough" else 4
    pairs = ((1, 1), (2, 1), (1, 2), (0, 2), (3, 0), (2, 2), (0, 0), (3, 3)) if C.tier() == "thorough" else \
        ((1, 1), (2, 1), (1, 2), (0, 2), (3, 0))
    total = 0
    for n in _reg_unit_names():
        u = F.load(n)
        chk.units.append(n)
        jobs = []
        for pr in pairs:
            jobs += _jobs("r_reg_spl", "arithmetic_suite", range(3, nmax + 1), nmax=nmax, order_pairs=(pr,))
        total += r_reg.run_jobs(chk, u, "R-REG.arith", jobs)
        total += r_reg.run_jobs(chk, u, "R-REG.scalar", _jobs("r_reg_spl", "scalar_suite", range(2, nmax + 1),
                                                              nmax=nmax))
        total += r_reg.run_jobs(chk, u, "R-REG.lincomb", _jobs("r_reg_spl", "lincomb_suite", range(3, nmax + 1),
                                                               nmax=nmax))
    chk.note("regions_evaluated", total)
    chk.note("grid_size_bound", nmax)
    chk.note("order_pairs", [list(p) for p in pairs])
    chk.exhaustive = True
    chk.floor("R-REG.arith", chk.rules["R-REG.arith"]["instances"], 10, "(function, clause) obligations")
    return chk


ALL.update(C02=C02, C15=C15, C03=C03)
