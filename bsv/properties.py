"""Property checks: each function composes rule engines into the verdict for one property."""
from . import config as C
from . import facts as F
from .facts import AnalysisBroken
from .report import Check


def C19():
    from . import r_arch
    chk = Check("C19", "proof",
                "R-ARCH: the compiler's accept/reject decision on the current headers, instantiated with a "
                "minimal scalar archetype offering exactly the documented operations, for every function "
                "pattern of the core headers and the generic interpolate (clause decided: 'compile for any "
                "scalar type that offers only ...'; 'results are exact with an exact field type' is run-time "
                "and not decided)",
                checker_cmd="bsv-dump (clang 14 front end) on drivers/drv_arch.cpp with and without "
                            "-DBSPLINE_ADD_TEST_CHECKS; clang++ -fsyntax-only on drivers/neg_controls.cpp")
    chk.trust("clang 14 C++17 front end (g++ 12 in the thorough tier)",
              "vt::Arch (drivers/arch.h) is the documented requirement list, kept tight by the negative controls")
    chk.assume("a scalar type offering a superset of vt::Arch's operations accepts every program vt::Arch accepts "
               "(the library has no SFINAE on scalar capabilities; checked: enable_if only tests is_operator_v / "
               "is_spline_v)")
    names = ["arch_on", "arch_off"]
    units = r_arch.positive_witness(chk, names)
    r_arch.negative_controls(chk)
    if len(units) == len(names):
        ncov = r_arch.coverage(chk, units)
        chk.floor("R-ARCH.cov", ncov, 150, "function patterns instantiated with the archetype")
        r_arch.lint(chk, units)
        if C.tier() == "thorough":
            r_arch.gxx_witness(chk)
    return chk


ALL = {"C19": C19}


def _lib_units(extra=()):
    names = ["dbl_on", "dbl_off"] + list(extra)
    us = F.load_many(names)
    return [us[n] for n in names]


def C08():
    from . import r_grd
    chk = Check("C08", "other",
                "R-GRD: must-pass-through of a grid comparison on every normal path of every public library "
                "function with two or more grid-carrying inputs (derived from the signatures), with call-graph "
                "summaries; decided on the CFG of every instantiation for all inputs",
                checker_cmd="bin/check C08")
    units = _lib_units()
    chk.units = [u.name for u in units]
    ents = r_grd.run(chk, units)
    chk.floor("R-GRD.a", len(ents), 14, "entry points with >=2 grid-carrying inputs")
    return chk


ALL["C08"] = C08
