"""Property checks: each function composes rule engines into the verdict for one property."""
import os

from . import config as C
from . import facts as F
from .facts import AnalysisBroken
from .report import Check


def C19():
    from . import r_arch
    chk = Check("C19", "proof",
                "R-ARCH: the compiler's accept/reject decision on the current headers, instantiated with a "
                "minimal scalar archetype offering exactly the documented operations, for every function "
                "pattern of the core headers and the generic interpolate (clause decided: 'compile for any "
                "scalar type that offers only ...'; 'results are exact with an exact field type' is run-time "
                "and not decided)",
                checker_cmd="bsv-dump (clang 14 front end) on drivers/drv_arch.cpp with and without "
                            "-DBSPLINE_ADD_TEST_CHECKS; clang++ -fsyntax-only on drivers/neg_controls.cpp")
    chk.trust("clang 14 C++17 front end (g++ 12 in the thorough tier)",
              "vt::Arch (drivers/arch.h) is the documented requirement list, kept tight by the negative controls")
    chk.assume("a scalar type offering a superset of vt::Arch's operations accepts every program vt::Arch accepts "
               "(the library has no SFINAE on scalar capabilities; checked: enable_if only tests is_operator_v / "
               "is_spline_v)")
    names = ["arch_on", "arch_off", "iter_arch"]
    units = r_arch.positive_witness(chk, names)
    r_arch.negative_controls(chk)
    if len(units) == len(names):
        ncov = r_arch.coverage(chk, units)
        chk.floor("R-ARCH.cov", ncov, 120, "function patterns instantiated with the archetype")
        r_arch.lint(chk, units)
        if C.tier() == "thorough":
            r_arch.gxx_witness(chk)
    # scalars whose operators return expression proxies (boost::multiprecision et_on, GMP): arithmetic results that outlive
    # their full expression are always named with the scalar type
    npx = r_arch.proxy_free(chk)
    chk.floor("R-ARCH.proxy", npx, 200, "library functions instantiated with the proxy archetype") if npx else None
    r_arch.proxy_control(chk)
    # "... and work": a type with exact arithmetic has no infinity, so valid input must never divide by an exact zero
    # (repeated knots in the generator) - decided by the region evaluator on all knot multiplicity patterns
    from . import r_reg
    u = F.load("dbl_off")
    chk.units.append("dbl_off")
    maxlen = 5 if C.tier() == "thorough" else 4
    r_reg.run_jobs(chk, u, "R-REG.divzero", _jobs("r_reg_val", "generator_suite", range(0, maxlen + 1), maxlen=maxlen,
                                                  orders=(0, 1, 2, 3))[:-1],
                   view=lambda st: {k: v for k, v in st.items() if "division" in k[2]})
    # "... and work": the instantiation with the archetype (not only the one with double) meets the specifications of
    # the value rules - a compile-time branch on a property of T cannot give user-defined scalars a different meaning
    ua = F.load("arch_off")
    chk.units.append("arch_off")
    lib, _ = _broad_jobs(3, ops=False)
    n = r_reg.run_jobs(chk, ua, "R-REG.arch", lib)
    uc = F.load("cases_arch")
    chk.units.append("cases_arch")
    for fn, nm in (("operator_suite", 4), ("bilinear_suite", 3), ("linear_suite", 4)):
        n += r_reg.run_jobs(chk, uc, "R-REG.arch", _ops_jobs(fn, nm))
    # factorial / binomial tables up to 16!: every integer handed to the scalar type fits an int
    for unit in (u, ua):
        r_reg.run_jobs(chk, unit, "R-REG.const", [("bsv.r_reg_ops", "constant_table_suite", dict(nmax=16))])
    chk.note("regions_evaluated_with_archetype", n)
    chk.floor("R-REG.arch", chk.rules["R-REG.arch"]["instances"], 140, "(function, clause) obligations on the "
              "archetype instantiation")
    return chk


ALL = {"C19": C19}
# (C19 uses _jobs, defined below; resolved at call time)


def _lib_units(extra=()):
    names = ["dbl_on", "dbl_off"] + list(extra)
    us = F.load_many(names)
    return [us[n] for n in names]


def C08():
    from . import r_grd
    chk = Check("C08", "other",
                "R-GRD: must-pass-through of a grid comparison on every normal path of every public library "
                "function with two or more grid-carrying inputs (derived from the signatures), with call-graph "
                "summaries; decided on the CFG of every instantiation for all inputs",
                checker_cmd="bin/check C08")
    units = _lib_units()
    chk.units = [u.name for u in units]
    _stateless(chk)   # whether two grids are "the same grid" is a function of their points only: no cache of earlier verdicts
    ents = r_grd.run(chk, units)
    chk.floor("R-GRD.a", len(ents), 14, "entry points with >=2 grid-carrying inputs")
    nf = r_grd.forwarding(chk, units + [F.load("cases_off")])
    chk.floor("R-GRD.fwd", nf, 4, "member operators of compound operators")
    # (d) the comparison used by the guards is logical grid equality, symmetric, for every way two grids can
    # differ; and the refusing operations throw / leave operands unchanged on representative placements
    from . import r_reg
    chk.rule("R-REG.grid", "Grid::operator==/!= evaluated abstractly: equal iff same points (same object, copy, equal "
                           "data in a distinct object) and unequal for every way two grids can differ, both operand "
                           "orders")
    chk.trust(*REG_TRUST)
    u = units[1]
    nmax = 6 if C.tier() == "thorough" else 4
    tot = r_reg.run_jobs(chk, u, "R-REG.grid", _jobs("r_reg_sup", "grid_suite", range(2, nmax + 1), maxlen=nmax - 2,
                                                     ctors=False), view=r_reg.clause_view(*r_reg.GRID_CLAUSES))
    tot += r_reg.run_jobs(chk, u, "R-REG.sup", _jobs("r_reg_sup", "support_suite", range(2, 5), nmax=4),
                          view=r_reg.clause_view(*r_reg.GRID_CLAUSES))
    jobs = [("bsv.r_reg_spl", "arithmetic_suite", dict(nmax=4, order_pairs=(pr,), ns=[], fixed=True))
            for pr in ((1, 1), (2, 1), (0, 2))]
    jobs += _jobs("r_reg_spl", "lincomb_suite", [3], nmax=3)
    jobs += _jobs("r_reg_spl", "arithmetic_suite", [3, 4], nmax=4, order_pairs=((1, 1),))[:-1]   # incl. equal grids held
    #                                                                                in distinct objects
    tot += r_reg.run_jobs(chk, u, "R-REG.refuse", jobs, view=r_reg.clause_view(
        "different grid", "differing grids", "DIFFERING_GRIDS", "is refused with", "leaves both operands"))
    # "a generator refuses a supplied grid that does not match its knots": every knot sequence x every way the grid can
    # differ (point moved / extra / missing, in front, inside, at the end)
    tot += r_reg.run_jobs(chk, u, "R-REG.val", _jobs("r_reg_val", "generator_suite", range(2, 5), maxlen=4,
                                                     orders=())[:-1],
                          view=r_reg.clause_view("BSplineGenerator(knots, grid)"))
    # an object that was assigned from another grid IS on that grid afterwards (else later operations compare against a
    # stale grid: wrongly accepted with the former grid, wrongly refused with the real one)
    tot += r_reg.run_jobs(chk, u, "R-REG.refuse", _jobs("r_reg_spl", "validity_suite", [3], nmax=3),
                          view=r_reg.clause_view("different grid"))
    chk.note("regions_evaluated", tot)
    from . import controls
    controls.require(chk, ['R-GRD.a', 'R-GRD.c', 'R-GRD.fwd'])
    return chk


ALL["C08"] = C08


def _jobs(mod, fn, ns, **kw):
    """One job per grid size (fixed=False) plus one job for the size-independent cases."""
    jobs = [("bsv." + mod, fn, dict(kw, ns=[n], fixed=False)) for n in ns]
    jobs.append(("bsv." + mod, fn, dict(kw, ns=[], fixed=True)))
    return jobs


def C13():
    from . import r_reg, r_reg_sup
    chk = Check("C13", "proof",
                "R-REG: abstract evaluation of every method of Support (and the Grid accessors it uses) from the "
                "extracted source over the finite domain of order/adjacency/wrap-around types of its integer "
                "arguments, compared with specification functions written from the statement (hull, common grid "
                "points, mutually inverse conversions, 'not contained' for every other index incl. 2^64-1)",
                checker_cmd="bin/check C13 (bsv/interp.py over the statement trees of unit dbl_off / dbl_on)")
    chk.trust("bsv-dump extraction (clang 14 AST)", "bsv/interp.py semantics of the C++ subset and its models of "
              "std::vector/optional/shared_ptr/min/max/lower_bound", "the specification functions in bsv/r_reg_sup.py")
    chk.assume("small-model argument: Support/Grid code only compares its integer inputs, takes min/max and adds or "
               "subtracts them or 0/1/2 (checked: anything else leaves the fragment -> exit 2), so its behaviour "
               "depends only on the order/adjacency/wrap type of {0,start,end,size,index}; every such type has a "
               "representative with size<=nmax or at the top of the 64-bit range")
    nmax = 8 if C.tier() == "thorough" else 6
    names = ["dbl_off", "dbl_on"] if C.tier() == "thorough" else ["dbl_off"]
    total = 0
    _stateless(chk)   # the algebra's results are functions of the operands' grids and windows only (first: a later engine
    #                   leaving the fragment must not hide a cache of earlier verdicts)
    for n in names:
        u = F.load(n)
        chk.units.append(n)
        total += r_reg.run_jobs(chk, u, "R-REG.sup", _jobs("r_reg_sup", "support_suite", range(2, nmax + 1), nmax=nmax))
        total += r_reg.run_jobs(chk, u, "R-REG.grid", _jobs("r_reg_sup", "grid_suite", range(2, nmax + 1),
                                                            maxlen=nmax - 2, ctors=False))
        # copies / moves / assignments (also across grids) hand over grid and window together
        total += r_reg.run_jobs(chk, u, "R-REG.inv", _jobs("r_reg_spl", "validity_suite", [3, 4], nmax=4)[:-1],
                                view=r_reg.clause_view(*r_reg.WINDOW_CLAUSES))
    chk.note("oracle_self_check_triples", r_reg_sup.check_oracle(6 if C.tier() == "thorough" else 5))
    chk.note("regions_evaluated", total)
    chk.note("grid_size_bound", nmax)
    chk.exhaustive = True
    chk.floor("R-REG.sup", chk.rules["R-REG.sup"]["instances"], 22, "(function, clause) obligations on Support")
    return chk


ALL["C13"] = C13


REG_TRUST = ("bsv-dump extraction (clang 14 AST of the instantiations in drivers/drv_double.cpp)",
             "bsv/interp.py: semantics of the interpreted C++ subset and its models of std containers/algorithms",
             "the specification functions in bsv/r_reg_*.py (written from the property statement)")
REG_ASSUME = ("small-model argument: index code only compares its integer inputs and adds/subtracts them or small "
              "constants (anything else leaves the fragment -> exit 2), so its behaviour depends only on the "
              "order/adjacency type of the window bounds; all such types occur for grids up to the size bound",
              "scalar arithmetic is abstracted to dependence sets: which inputs a result is computed from is decided, "
              "the arithmetic performed with them is not")


def _reg_unit_names():
    return ["dbl_off", "dbl_on"] if C.tier() == "thorough" else ["dbl_off"]


def _expr_ownership(chk, fwd=False):
    """Operators / forms own their operands: no reference members, no reference handed out to a dying object, no
    by-value API turned into a by-reference one; compound operators forward to every member operator."""
    from . import r_own as _ro, r_grd as _rg, controls as _ct
    units = _lib_units(["cases_off"])
    chk.rule("R-OWN.lvalue", "operator expressions, forms and wrappers can be built from named (const and non-const lvalue) "
                             "operators, splines and scalars: drivers/drv_lvalue.h type-checks against the current headers; "
                             "what the deduction guides / forwarding overloads deduce is then subject to R-OWN.field")
    try:
        units = units + [F.load("lvalue")]
        chk.ok("R-OWN.lvalue", "drivers/drv_lvalue.h", "every construction from lvalues compiles",
               key="lvalue")
    except F.ExtractError as ex:
        import re as _re
        m = None
        for ln in ex.stderr.splitlines():
            m = _re.match(r"(.+?):(\d+):(\d+): error: (.*)$", ln)
            if m and C.in_repo(os.path.abspath(m.group(1))):
                break
            m = None
        if m is None:
            raise
        chk.bad("R-OWN.lvalue", "%s:%s" % (C.rel(os.path.abspath(m.group(1))), m.group(2)),
                "(instantiated from drivers/drv_lvalue.h)", "compile-error:" + m.group(4)[:80],
                "building an operator expression / form from a named operand no longer compiles: " + m.group(4),
                witness=dict(unit="lvalue", compiler_output=ex.stderr[-1500:]))
    chk.units.append("lvalue")
    _ro.expression_members(chk, units)
    _ro.returned_references(chk, units)
    # (the contract tables are consulted for the operator / form layer only: these checks are about operator application)
    layer = lambda pf: "/operators/" in pf or pf.endswith(("/integration/BilinearForm.h", "/integration/LinearForm.h"))
    _ro.api_returns(chk, units, files=layer)
    _ro.api_params(chk, units, files=layer)
    _ro.borrowed_shared(chk, units, scope=lambda f: f.in_lib() and layer(f.decl.get("pfile", "")))
    # an expression object / form built from a NAMED operator copies it: a forwarding constructor must not move from it
    from . import r_small as _rs
    _rs.r_forward_move(chk, units, scope=lambda f: f.in_lib() and layer(f.decl.get("pfile", "")))
    need = ["R-OWN.field", "R-LIFE.ret", "R-API.ret", "R-API.param", "R-OWN.borrow", "R-OWN.fwdmove"]
    if fwd:
        n = _rg.forwarding(chk, units)
        chk.floor("R-GRD.fwd", n, 4, "member operators of compound operators")
        need.append("R-GRD.fwd")
    _ct.require(chk, need)


def _stateless(chk, extra_units=()):
    """A necessary condition of every value property: results are functions of the operands only - library code
    keeps no static/thread-local mutable state and no mutable members (a cache would make results history-dependent)."""
    from . import r_own, controls
    units = _lib_units(["cases_off"] + list(extra_units))
    r_own.statics(chk, units)
    r_own.const_correctness(chk, units)
    r_own.frozen_statics(chk, units)
    controls.require(chk, ["R-EFF.static", "R-OWN.mutable", "R-OWN.cast", "R-EFF.frozen"])


def C02():
    from . import r_reg
    chk = Check("C02", "other",
                "R-REG (interval selection and end points): Spline::operator(), front, back evaluated abstractly for "
                "every window, every abscissa position (each grid point, each gap, both outsides, unordered) and "
                "orders 0..2; the result must be 0 outside the closed support and otherwise depend on exactly the "
                "coefficients of ONE interval containing x and that interval's two end points. The Horner "
                "arithmetic itself is not decided.")
    chk.trust(*REG_TRUST)
    _stateless(chk)   # first: a later engine leaving the fragment must not hide it
    chk.assume(*REG_ASSUME)
    nmax = 7 if C.tier() == "thorough" else 5
    total = 0
    for n in _reg_unit_names():
        u = F.load(n)
        chk.units.append(n)
        total += r_reg.run_jobs(chk, u, "R-REG.eval", _jobs("r_reg_spl", "eval_suite", range(2, nmax + 1), nmax=nmax,
                                                            orders=(0, 1, 2, 3)))
    # the value: a(x) as an exact affine form in the coefficients (weights (x - midpoint)^p computed from the grid)
    for n in _cases_units():
        total += r_reg.run_jobs(chk, F.load(n), "R-REG.kernel", _kernel_jobs(("eval",)))
        chk.units.append(n)
    # orders 4..6 (interval selection, end points, history clauses) and the value for orders 5, 6
    total += r_reg.run_jobs(chk, F.load(HIGH_UNIT), "R-REG.eval", _high_jobs("eval"))
    chk.units.append(HIGH_UNIT)
    total += r_reg.run_jobs(chk, F.load(HIGH_CASES), "R-REG.kernel", _high_case_jobs("evalk"))
    chk.units.append(HIGH_CASES)
    chk.note("high_orders", HIGH_NOTE)
    chk.assume(KERNEL_ASSUME)
    chk.note("regions_evaluated", total)
    chk.note("grid_size_bound", nmax)
    chk.exhaustive = True
    chk.floor("R-REG.eval", chk.rules["R-REG.eval"]["instances"], 5, "(function, clause) obligations")
    return chk


KERNEL_ASSUME = ("kernel values: every weight is a polynomial in the grid points whose degree the evaluation bounds (ring "
                 "operations only - the suite asserts that the kernel neither compares nor divides by data); agreement with "
                 "the specified polynomial on degree+1 distinct interval widths (and 2-3 offsets) is agreement for every "
                 "width; dependence on the absolute position beyond the sampled offsets is not excluded")


HIGH_UNIT = "high_off"
HIGH_NOTE = ("orders above the main driver grid: drivers/drv_high.cpp instantiates a reduced API slice for spline orders 4, 5, 6 "
             "(results up to order 12); the same suites and specifications are evaluated there on small grids")


def _high_jobs(kind, thorough=None):
    """Suites on the high-order unit (orders 4..6).  kind: eval | arith | scalar | lincomb | all."""
    th = (C.tier() == "thorough") if thorough is None else thorough
    jobs = []
    if kind in ("eval", "all"):
        jobs += [("bsv.r_reg_spl", "eval_suite", dict(nmax=4, orders=(o,), ns=[n], fixed=False))
                 for o in (4, 5, 6) for n in ((2, 3, 4) if th else (2, 3))]
    if kind in ("arith", "all"):
        prs = ((4, 4), (5, 5), (6, 6), (6, 2), (2, 6), (5, 4), (4, 5), (6, 0)) if th else ((4, 4), (6, 2), (2, 6), (5, 4))
        jobs += [("bsv.r_reg_spl", "arithmetic_suite", dict(nmax=4, order_pairs=(pr,), ns=[n], fixed=(n == 3)))
                 for pr in prs for n in ((3, 4) if th else (3,))]
    if kind in ("scalar", "all"):
        jobs += [("bsv.r_reg_spl", "scalar_suite", dict(nmax=3, orders=(o,), ns=[3], fixed=False)) for o in (4, 6)]
    if kind in ("lincomb", "all"):
        jobs += [("bsv.r_reg_spl", "lincomb_suite", dict(nmax=3, order=5, ns=[3], fixed=True))]
    return jobs


HIGH_CASES = "cases_high"
_SP14 = (1, 2, 3, 5, 7, 11, 13, 17, 19, 23, 29, 31, 37, 41)


def _high_case_jobs(kind):
    """Named operator / form cases for spline orders 5 and 6 (unit cases_high).  kind: evalk | pos | opsuite[:primitive] |
    opsk | lfk | lfs | bfk | bfs."""
    pairs = ((5, 5), (6, 2), (2, 6), (4, 5))
    K = "bsv.r_reg_ops"
    if kind == "evalk":
        return [(K, "kernel_suite", dict(ns=[2], parts=("eval",), orders=(o,), spacings=_SP14)) for o in (5, 6)]
    if kind == "lfk":
        return [(K, "kernel_suite", dict(ns=[2], parts=("lf",), orders=(o,), spacings=_SP14)) for o in (5, 6)]
    if kind == "bfk":
        return [(K, "kernel_suite", dict(ns=[2], parts=("bf",), order_pairs=(pr,), spacings=_SP14)) for pr in pairs]
    if kind == "opsk":
        return [(K, "kernel_suite", dict(ns=[2], parts=("ops",), orders=(o,))) for o in (5, 6)]
    if kind == "pos":
        return [(K, "kernel_suite", dict(ns=[2], parts=("pos",), orders=(o,))) for o in (5, 6)]
    if kind.startswith("opsuite"):
        from . import r_reg_ops
        kw = dict(cases=sorted(r_reg_ops.PRIMITIVE)) if kind.endswith(":primitive") else {}
        return [(K, "operator_suite", dict(kw, nmax=3, orders=(o,), ns=[3], fixed=False)) for o in (5, 6)]
    if kind == "lfs":
        return [(K, "linear_suite", dict(nmax=3, orders=(o,), ns=[3], fixed=False)) for o in (5, 6)]
    if kind == "bfs":
        return [(K, "bilinear_suite", dict(nmax=3, order_pairs=(pr,), ns=[3], fixed=False)) for pr in pairs[:3]]
    raise ValueError(kind)


def _kernel_jobs(parts, **kw):
    return [("bsv.r_reg_ops", "kernel_suite", dict(kw, ns=[n], parts=parts)) for n in (2, 3)]


def C15():
    from . import r_reg
    chk = Check("C15", "other",
                "R-REG (predicate logic): checkOverlap for all window pairs on one grid (same object / equal grid in "
                "a distinct object) against 'share at least one interval'; isZero over coefficient outcomes "
                "{zero, non-zero, unordered}; Spline/Support/Grid == and != against the statement, incl. symmetry, "
                "reflexivity, copy-equality, and every way two grids can differ")
    chk.trust(*REG_TRUST)
    _stateless(chk)   # a memoised predicate would be a mutable member
    chk.assume(REG_ASSUME[0], "reflexivity needs coefficients that equal themselves (no NaN)")
    nmax = 6 if C.tier() == "thorough" else 4
    total = 0
    for n in _reg_unit_names():
        u = F.load(n)
        chk.units.append(n)
        total += r_reg.run_jobs(chk, u, "R-REG.pred", _jobs("r_reg_spl", "predicate_suite", range(2, nmax + 1),
                                                            nmax=nmax))
        pv = r_reg.clause_view(*r_reg.PRED_CLAUSES)
        total += r_reg.run_jobs(chk, u, "R-REG.grid", _jobs("r_reg_sup", "grid_suite", range(2, nmax + 1),
                                                            maxlen=nmax - 2, ctors=False), view=pv)
        total += r_reg.run_jobs(chk, u, "R-REG.sup", _jobs("r_reg_sup", "support_suite", range(2, min(nmax, 4) + 1),
                                                           nmax=min(nmax, 4)), view=pv)
    chk.note("regions_evaluated", total)
    chk.exhaustive = True
    chk.floor("R-REG.pred", chk.rules["R-REG.pred"]["instances"], 6, "(function, clause) obligations")
    return chk


def C03():
    from . import r_reg
    chk = Check("C03", "other",
                "R-REG (framing of spline arithmetic): a*b, a+b, a-b, +=, -=, cross-order =, scalar forms and "
                "linearCombination evaluated abstractly for all window placements (nested, overlapping, touching, "
                "gap, point-like, interval-free; equal grids in distinct objects) and several order pairs; every "
                "result coefficient must depend on exactly the operand coefficients of the same absolute interval "
                "and power the pointwise operation prescribes, be the constant zero elsewhere, leave operands "
                "unchanged and yield a valid spline. Signs and numeric values are not decided.")
    chk.trust(*REG_TRUST)
    _stateless(chk)   # first: a later engine leaving the fragment must not hide it
    chk.assume(*REG_ASSUME)
    nmax = 6 if C.tier() == "thorough" else 4
    pairs = ((1, 1), (2, 1), (1, 2), (0, 2), (3, 0), (2, 2), (0, 0), (3, 3)) if C.tier() == "thorough" else \
        ((1, 1), (2, 1), (1, 2), (0, 2), (3, 0))
    total = 0
    for n in _reg_unit_names():
        u = F.load(n)
        chk.units.append(n)
        jobs = []
        for k, pr in enumerate(pairs):
            # the largest grid size only for three order pairs, and in the thorough tier only for the first unit
            top = nmax if (k < 3 and n == "dbl_off") or C.tier() != "thorough" else nmax - 1
            jobs += _jobs("r_reg_spl", "arithmetic_suite", range(3, top + 1), nmax=top, order_pairs=(pr,))
        jobs.sort(key=lambda j: -(j[2]["ns"][0] if j[2]["ns"] else 0))
        total += r_reg.run_jobs(chk, u, "R-REG.arith", jobs)
        total += r_reg.run_jobs(chk, u, "R-REG.scalar", _jobs("r_reg_spl", "scalar_suite", range(2, nmax + 1),
                                                              nmax=nmax))
        total += r_reg.run_jobs(chk, u, "R-REG.lincomb", _jobs("r_reg_spl", "lincomb_suite", range(3, nmax + 1),
                                                               nmax=nmax))
        # the numeric Cauchy product: with b running over unit coefficient vectors every product coefficient is exactly
        # one coefficient of a (weights 1)
        total += r_reg.run_jobs(chk, u, "R-REG.kernel", _kernel_jobs(("mul",), order_pairs=tuple(pairs)))
    # orders 4..6: framing, signs and term structure of the same operations (products up to order 12)
    uh = F.load(HIGH_UNIT)
    chk.units.append(HIGH_UNIT)
    total += r_reg.run_jobs(chk, uh, "R-REG.arith", _high_jobs("arith"))
    total += r_reg.run_jobs(chk, uh, "R-REG.scalar", _high_jobs("scalar"))
    total += r_reg.run_jobs(chk, uh, "R-REG.lincomb", _high_jobs("lincomb"))
    total += r_reg.run_jobs(chk, uh, "R-REG.kernel", [("bsv.r_reg_ops", "kernel_suite", dict(
        ns=[2], parts=("mul",), order_pairs=((4, 4), (6, 2), (2, 6))))])
    chk.note("high_orders", HIGH_NOTE)
    chk.note("regions_evaluated", total)
    chk.note("grid_size_bound", nmax)
    chk.note("order_pairs", [list(p) for p in pairs])
    chk.exhaustive = True
    chk.floor("R-REG.arith", chk.rules["R-REG.arith"]["instances"], 10, "(function, clause) obligations")
    return chk


ALL.update(C02=C02, C15=C15, C03=C03)


def _cases_units():
    return ["cases_off", "cases_on"] if C.tier() == "thorough" else ["cases_off"]


def _ops_jobs(fn, nmax, lo=2, **kw):
    """Jobs for the operator / form suites, split by grid size and by order (pair) so that the large
    grid sizes do not end up in one worker."""
    from . import r_reg_ops
    jobs = []
    for n in range(lo, nmax + 1):
        base = dict(kw, nmax=nmax, ns=[n], fixed=False)
        if fn == "operator_suite":
            names = sorted(kw.get("cases") or r_reg_ops.OP_CASES)
            fac = [c for c in names if r_reg_ops.OP_CASES[c][2] is not None]
            plain = [c for c in names if r_reg_ops.OP_CASES[c][2] is None]
            for A in kw.get("orders", (0, 1, 2, 3)):
                if plain:
                    jobs.append(("bsv.r_reg_ops", fn, dict(base, orders=(A,), cases=plain)))
                for c in fac:
                    jobs.append(("bsv.r_reg_ops", fn, dict(base, orders=(A,), cases=[c])))
        elif fn in ("bilinear_suite", "quadrature_suite"):
            for pr in kw.get("order_pairs", ((1, 1), (2, 1), (0, 3), (2, 2))):
                jobs.append(("bsv.r_reg_ops", fn, dict(base, order_pairs=(pr,))))
        elif fn == "linear_suite":
            for A in kw.get("orders", (0, 1, 2, 3)):
                jobs.append(("bsv.r_reg_ops", fn, dict(base, orders=(A,))))
        else:
            jobs.append(("bsv.r_reg_ops", fn, base))
    # largest first: better load balance
    jobs.sort(key=lambda j: -j[2]["ns"][0])
    return jobs


def C04():
    from . import r_reg, r_reg_ops
    chk = Check("C04", "other",
                "R-REG (framing of primitive operators): Dx<0..4>, X<0..3> and the identity applied through "
                "transformSpline / operator* to splines of order 0..3 on every window of grids up to the size bound "
                "(plus constant propagation through faculty / facultyRatio / binomialCoefficient for arguments 0..9): "
                "the result lives on the operand's support and coefficient p of interval I depends on exactly the "
                "operand coefficients of the same interval that d^n/dx^n resp. x^n prescribes and (for x^n) on that "
                "interval's two end points; exactly zero where n exceeds the degree. Falling-factorial and binomial "
                "values are not decided.")
    chk.trust(*REG_TRUST)
    _expr_ownership(chk)   # the result of applying an operator is an independent value
    _stateless(chk)   # first: a later engine leaving the fragment must not hide it
    chk.assume(*REG_ASSUME)
    nmax = 6 if C.tier() == "thorough" else 4
    total = 0
    for n in _cases_units():
        u = F.load(n)
        chk.units.append(n)
        total += r_reg.run_jobs(chk, u, "R-REG.op", _ops_jobs("operator_suite", nmax,
                                                              cases=sorted(r_reg_ops.PRIMITIVE)))
        # the value of x^m a: exact re-expansion weights C(m,k) midpoint^(m-k) on a 4 x 4 tensor of offsets and widths
        total += r_reg.run_jobs(chk, u, "R-REG.kernel", _kernel_jobs(("pos",)))
        total += r_reg.run_jobs(chk, u, "R-REG.const", [("bsv.r_reg_ops", "constant_table_suite", dict(nmax=9))])
    uh = F.load(HIGH_CASES)
    chk.units.append(HIGH_CASES)
    total += r_reg.run_jobs(chk, uh, "R-REG.op", _high_case_jobs("opsuite:primitive"))
    total += r_reg.run_jobs(chk, uh, "R-REG.kernel", _high_case_jobs("pos"))
    chk.note("high_orders", HIGH_NOTE)
    chk.note("regions_evaluated", total)
    chk.note("grid_size_bound", nmax)
    chk.exhaustive = True
    chk.floor("R-REG.op", chk.rules["R-REG.op"]["instances"], 10, "operator cases")
    chk.assume(KERNEL_ASSUME)
    return chk


def C05():
    from . import r_reg, r_reg_ops
    chk = Check("C05", "other",
                "R-REG (framing of operator expressions) + R-DIV (scalar discipline): 35 named expressions of the "
                "operator algebra (drivers/cases.h: products, sums, differences, scalars on both sides, unary minus, "
                "nested forms, spline factors with every relative placement of factor and operand support) evaluated "
                "abstractly; every result coefficient must depend on exactly the inputs the spelled differential "
                "expression prescribes; a spline factor acts as zero outside its own intervals. Signs, operator "
                "order inside one dependence class and numeric values are not decided.")
    chk.trust(*REG_TRUST)
    from . import r_own as _ro, controls as _ct
    _expr_ownership(chk, fwd=True)
    _stateless(chk)   # first: a later engine leaving the fragment must not hide it
    chk.assume(*REG_ASSUME)
    nmax = 5 if C.tier() == "thorough" else 4
    total = 0
    for n in _cases_units():
        u = F.load(n)
        chk.units.append(n)
        total += r_reg.run_jobs(chk, u, "R-REG.op", _ops_jobs("operator_suite", nmax))
        # the value: every expression as the exact linear map it denotes (exact scalar, exact factor coefficients,
        # re-expansion weights from the grid) on a tensor of offsets and widths
        total += r_reg.run_jobs(chk, u, "R-REG.kernel", [("bsv.r_reg_ops", "kernel_suite", dict(ns=[n_], parts=("ops",),
                                                                                                 orders=(A,)))
                                                         for n_ in (2, 3) for A in (0, 1, 2, 3)])
        total += r_reg.run_jobs(chk, u, "R-REG.const", [("bsv.r_reg_ops", "constant_table_suite", dict(nmax=9))])
    uh = F.load(HIGH_CASES)
    chk.units.append(HIGH_CASES)
    total += r_reg.run_jobs(chk, uh, "R-REG.op", _high_case_jobs("opsuite"))
    total += r_reg.run_jobs(chk, uh, "R-REG.kernel", _high_case_jobs("opsk"))
    chk.note("high_orders", HIGH_NOTE)
    chk.note("regions_evaluated", total)
    chk.note("grid_size_bound", nmax)
    chk.exhaustive = True
    chk.floor("R-REG.op", chk.rules["R-REG.op"]["instances"], 35, "operator cases")
    chk.assume(KERNEL_ASSUME)
    from . import r_small
    nd = r_small.r_div(chk, _lib_units(["cases_off"]))
    chk.floor("R-DIV", nd, 4, "functions using a scalar of type S")
    from . import controls
    controls.require(chk, ['R-DIV'])
    return chk


def C06():
    from . import r_reg
    chk = Check("C06", "other",
                "R-REG (framing of bilinear forms): BilinearForm with identity / X / Dx / spline-factor operators "
                "evaluated abstractly for all pairs of windows (identical, nested, overlapping, touching, disjoint, "
                "interval-free; equal grids in distinct objects) and four order pairs: the value must be built from "
                "exactly the even-power products of the two transformed pieces of every COMMON interval and that "
                "interval's width, and be exactly zero when no interval is shared. The Horner kernel's numeric "
                "result is not decided.")
    chk.trust(*REG_TRUST)
    from . import r_own as _ro, controls as _ct
    _expr_ownership(chk)
    _stateless(chk)   # first: a later engine leaving the fragment must not hide it
    chk.assume(*REG_ASSUME)
    nmax = 5 if C.tier() == "thorough" else 4
    total = 0
    for n in _cases_units():
        u = F.load(n)
        chk.units.append(n)
        total += r_reg.run_jobs(chk, u, "R-REG.bf", _ops_jobs("bilinear_suite", nmax))
        total += r_reg.run_jobs(chk, u, "R-REG.kernel", _kernel_jobs(
            ("bf",), order_pairs=((0, 0), (0, 1), (1, 0), (1, 1), (2, 1), (0, 3), (2, 2))))
        total += r_reg.run_jobs(chk, u, "R-REG.kernel", [
            ("bsv.r_reg_ops", "kernel_suite", dict(ns=[n_], parts=("bfops",), order_pairs=(pr,)))
            for n_ in (2, 3) for pr in ((1, 1), (2, 1), (0, 3), (2, 2))])
        # "for every operator expression O": the forms integrate the TRANSFORMED pieces, so the expression's own value (exact
        # linear image of the operand, incl. quotient nodes in context) and the factorial / binomial tables every X<n> / Dx<n>
        # is built from are premises of this property too
        total += r_reg.run_jobs(chk, u, "R-REG.kernel", [("bsv.r_reg_ops", "kernel_suite", dict(ns=[n_], parts=("ops",),
                                                                                                 orders=(A,)))
                                                         for n_ in (2, 3) for A in (0, 1, 2, 3)])
        total += r_reg.run_jobs(chk, u, "R-REG.const", [("bsv.r_reg_ops", "constant_table_suite", dict(nmax=9))])
    uh = F.load(HIGH_CASES)
    chk.units.append(HIGH_CASES)
    total += r_reg.run_jobs(chk, uh, "R-REG.bf", _high_case_jobs("bfs"))
    total += r_reg.run_jobs(chk, uh, "R-REG.kernel", _high_case_jobs("bfk"))
    chk.note("high_orders", HIGH_NOTE)
    chk.note("regions_evaluated", total)
    chk.exhaustive = True
    chk.floor("R-REG.bf", chk.rules["R-REG.bf"]["instances"], 6, "bilinear-form cases")
    chk.assume(KERNEL_ASSUME)
    return chk


def C07():
    from . import r_reg
    chk = Check("C07", "other",
                "R-REG (framing of linear forms): LinearForm with identity / X / Dx / product / spline-factor operators "
                "for every window and order 0..3: the value is built from exactly the even-power coefficients of the "
                "transformed piece of every interval of the operand (operator told the absolute interval) and that "
                "interval's width; exactly zero for an interval-free spline. Agreement with the bilinear form's "
                "numeric value is not decided.")
    chk.trust(*REG_TRUST)
    from . import r_own as _ro, controls as _ct
    _expr_ownership(chk)
    _stateless(chk)   # first: a later engine leaving the fragment must not hide it
    chk.assume(*REG_ASSUME)
    nmax = 6 if C.tier() == "thorough" else 4
    total = 0
    for n in _cases_units():
        u = F.load(n)
        chk.units.append(n)
        total += r_reg.run_jobs(chk, u, "R-REG.lf", _ops_jobs("linear_suite", nmax))
        total += r_reg.run_jobs(chk, u, "R-REG.kernel", _kernel_jobs(("lf",)))
        total += r_reg.run_jobs(chk, u, "R-REG.kernel", [
            ("bsv.r_reg_ops", "kernel_suite", dict(ns=[n_], parts=("lfops",), orders=(A,)))
            for n_ in (2, 3) for A in (0, 1, 2, 3)])
        # "for every operator expression O": the forms integrate the TRANSFORMED pieces, so the expression's own value (exact
        # linear image of the operand, incl. quotient nodes in context) and the factorial / binomial tables every X<n> / Dx<n>
        # is built from are premises of this property too
        total += r_reg.run_jobs(chk, u, "R-REG.kernel", [("bsv.r_reg_ops", "kernel_suite", dict(ns=[n_], parts=("ops",),
                                                                                                 orders=(A,)))
                                                         for n_ in (2, 3) for A in (0, 1, 2, 3)])
        total += r_reg.run_jobs(chk, u, "R-REG.const", [("bsv.r_reg_ops", "constant_table_suite", dict(nmax=9))])
    uh = F.load(HIGH_CASES)
    chk.units.append(HIGH_CASES)
    total += r_reg.run_jobs(chk, uh, "R-REG.lf", _high_case_jobs("lfs"))
    total += r_reg.run_jobs(chk, uh, "R-REG.kernel", _high_case_jobs("lfk"))
    chk.note("high_orders", HIGH_NOTE)
    chk.note("regions_evaluated", total)
    chk.exhaustive = True
    chk.floor("R-REG.lf", chk.rules["R-REG.lf"]["instances"], 5, "linear-form cases")
    chk.assume(KERNEL_ASSUME)
    return chk


def C17():
    from . import r_reg
    chk = Check("C17", "other",
                "R-QUAD (every instantiation integrate<n> applies a Gauss rule of at least n points in the scalar type "
                "and returns the scalar type) + R-REG (framing of numerical quadrature): integrate<2>, integrate<5> for all window pairs and four "
                "order pairs: the quadrature extends over exactly the common intervals, evaluates both splines' "
                "pieces of the same absolute interval between that interval's end points, and is exactly zero if "
                "there is none. Gauss-Legendre exactness and rounding are not decided (Boost's rule is modelled as "
                "'value built from the integrand inside [a,b]').")
    chk.trust(*REG_TRUST)
    _stateless(chk)   # first: a later engine leaving the fragment must not hide it
    chk.assume(*REG_ASSUME)
    nmax = 6 if C.tier() == "thorough" else 4
    total = 0
    for n in _cases_units():
        u = F.load(n)
        chk.units.append(n)
        total += r_reg.run_jobs(chk, u, "R-REG.quad", _ops_jobs("quadrature_suite", nmax))
        # the analytic side of the comparison: a polynomial weight of degree d is the operator X<d>, whose re-expansion uses
        # the binomial table - wrong entries (e.g. a truncating integer formula, exact up to some n only) break the equality
        total += r_reg.run_jobs(chk, u, "R-REG.const", [("bsv.r_reg_ops", "constant_table_suite", dict(nmax=9))])
        total += r_reg.run_jobs(chk, u, "R-REG.kernel", _kernel_jobs(("pos",)))
    chk.note("regions_evaluated", total)
    chk.exhaustive = True
    chk.floor("R-REG.quad", chk.rules["R-REG.quad"]["instances"], 2, "quadrature cases")
    from . import r_small
    nq = r_small.r_quad(chk, _lib_units(["cases_off"]))
    chk.floor("R-QUAD", nq, 10, "instantiations of integrate<n> (sizes 1, 2, 3, 5, 8, 11; T-, int- and float-valued weights)")
    return chk


ALL.update(C04=C04, C05=C05, C06=C06, C07=C07, C17=C17)


def _example_units():
    names = F.unit_names(prefix="ex_") + [n for n in F.unit_names() if n.startswith("readme_")]
    us = F.load_many(names)
    return [us[n] for n in names]


def C16():
    from . import r_small
    chk = Check("C16", "other",
                "R-CFGI decides only the LAST sentence of C16 - computed values do not depend on whether the optional "
                "self-checks are compiled in: the macro is consulted in one header only, its expansion is exactly a "
                "const checkValidity() call whose call closure is effect-free, and every instantiated library "
                "function has the same statement structure in both configurations once those calls are removed. "
                "The 2^20-epsilon error bound needs a rounding-error analysis over run-time values and is NOT "
                "decided (no sound floating-point analyser in this image).")
    chk.trust("bsv-dump extraction (macro origin of statements from clang's source manager)",
              "structural hash over kind, operator, type, resolved callee and constant of every statement")
    chk.assume("both configurations are compiled with the same compiler flags otherwise; optimisation-level "
               "independence of floating-point results is not decided")
    us = F.load_many(["dbl_on", "dbl_off"])
    chk.units = ["dbl_on", "dbl_off"]
    nsame, nmacro = r_small.r_cfgi(chk, us["dbl_on"], us["dbl_off"])
    chk.floor("R-CFGI.same", chk.rules["R-CFGI.same"]["instances"], 100, "function patterns compared")
    chk.floor("R-CFGI.macro", chk.rules["R-CFGI.macro"]["instances"], 15, "self-check macro statements")
    if C.tier() == "thorough":
        us2 = F.load_many(["cases_on", "cases_off"])
        r_small.r_cfgi(chk, us2["cases_on"], us2["cases_off"])
        chk.units += ["cases_on", "cases_off"]
    return chk


def C20():
    from . import r_small, r_grd
    chk = Check("C20", "other",
                "Decides one clause of 'run without undefined behaviour' for the shipped examples: R-EX (no erase / "
                "dereference of a container's own past-the-end iterator in examples/ and readme/), R-OPT on the "
                "example code, and the library-side rules on the instantiations the examples create (operator "
                "expressions own their operands; spline factors guarded by R-GRD). The physics (boundary values, "
                "scale invariance, eigenvalue shifts, n+1/2, -1/n^2) are run-time values and are NOT decided.")
    chk.trust("bsv-dump extraction of examples/*.cpp and readme/generation with the flags of the CMake files")
    units = _example_units()
    chk.units = [u.name for u in units]
    scope = lambda f: C.in_repo(f.decl["pfile"]) and not C.in_lib(f.decl["pfile"])
    r_small.r_ex(chk, units, scope)
    r_small.r_opt(chk, units, scope=lambda f: True)
    from . import r_own as _ro
    _ro.lifetimes(chk, units)
    _ro.invalidation(chk, units)
    _ro.frozen_statics(chk, units)
    _ro.returned_references(chk, units)
    r_small.r_eigen_init(chk, units, lambda f: C.in_repo(f.decl["pfile"]))
    r_small.r_arg_sequence(chk, units, lambda f: C.in_repo(f.decl["pfile"]))
    # library rules on what the examples instantiate
    chk.rule("R-GRD.a", "grid guard must-pass-through on the library instantiations created by the examples")
    ents = r_grd.run(chk, units)
    from . import r_own
    r_own.expression_members(chk, units)
    nfun = sum(1 for u in units for f in u.funcs if scope(f) and not f.dependent)
    chk.note("example_functions_analysed", nfun)
    if nfun < 15:
        raise AnalysisBroken("only %d example functions parsed" % nfun)
    from . import controls
    controls.require(chk, ['R-EX', 'R-OPT', 'R-GRD.a', 'R-OWN.field', 'R-LIFE', 'R-LIFE.inval', 'R-EFF.frozen',
                            'R-LIFE.ret', 'R-LIFE.seq', 'R-EX.init'])
    return chk


ALL.update(C16=C16, C20=C20)


def _broad_jobs(nsmall=3, ops=True):
    """A broad set of suites at small grid sizes (used where the claim is about every operation: C09, C10, C14)."""
    lib, cases = [], []
    lib += _jobs("r_reg_sup", "support_suite", range(2, nsmall + 2), nmax=nsmall + 1)
    lib += _jobs("r_reg_sup", "grid_suite", range(2, nsmall + 2), maxlen=nsmall)
    lib += _jobs("r_reg_spl", "eval_suite", range(2, nsmall + 2), nmax=nsmall + 1, orders=(0, 1, 3))
    lib += _jobs("r_reg_spl", "validity_suite", range(2, nsmall + 2), nmax=nsmall + 1)
    for pr in ((1, 1), (2, 1), (0, 2), (3, 0)):
        lib += _jobs("r_reg_spl", "arithmetic_suite", range(3, nsmall + 2), nmax=nsmall + 1, order_pairs=(pr,))
    lib += _jobs("r_reg_spl", "scalar_suite", range(2, nsmall + 2), nmax=nsmall + 1)
    lib += _jobs("r_reg_spl", "lincomb_suite", range(3, nsmall + 1), nmax=nsmall)
    lib += _jobs("r_reg_spl", "predicate_suite", range(2, nsmall + 1), nmax=nsmall)
    lib += _jobs("r_reg_val", "generator_suite", range(0, 5), maxlen=4)[:-1]
    lib += _jobs("r_reg_val", "interpolate_suite", range(2, nsmall + 1), nmax=nsmall)
    if ops:
        cases += _ops_jobs("operator_suite", nsmall + 1)
        cases += _ops_jobs("bilinear_suite", nsmall)
        cases += _ops_jobs("linear_suite", nsmall + 1)
        cases += _ops_jobs("quadrature_suite", nsmall)
    return lib, cases


def C09():
    from . import r_reg, r_small, r_own, r_inv
    chk = Check("C09", "other",
                "Named necessary conditions of memory safety, each decided for all inputs of its domain: (1) R-REG: "
                "no abstract evaluation of any library operation on any window placement runs into an out-of-range "
                "vector/array subscript, a read of uninitialised storage, a null / empty-optional dereference, an "
                "invalid iterator operation or signed overflow (models in bsv/interp.py), for grids up to the size "
                "bound and orders 0..3; (2) checked accessors and conversions throw / report not-contained for "
                "every index of the index type incl. 2^64-1; (3) R-OPT; (4) R-OWN.field + R-LIFE (no reference "
                "members, no reference into a dying temporary); (5) Grid validates its data pointer and cannot be "
                "moved from. Not decided: UB inside Eigen/Boost, allocation failure, instantiations outside the "
                "driver grid.")
    chk.trust(*REG_TRUST)
    chk.assume(*REG_ASSUME)
    nsmall = 4 if C.tier() == "thorough" else 3
    lib, cases = _broad_jobs(nsmall)
    total = 0
    for n in _reg_unit_names():
        u = F.load(n)
        chk.units.append(n)
        total += r_reg.run_jobs(chk, u, "R-REG.ub", lib, view=r_reg.ub_view)
        # the factorial / binomial helpers for arguments up to 24 (Dx<n>, X<n> of high order): an integer accumulator
        # overflows from 21! on (signed: undefined behaviour)
        total += r_reg.run_jobs(chk, u, "R-REG.ub", [("bsv.r_reg_ops", "constant_table_suite", dict(nmax=24))],
                                view=r_reg.ub_view)
    # orders 4..6: array sizes and loop bounds derived from the order
    total += r_reg.run_jobs(chk, F.load(HIGH_UNIT), "R-REG.ub", _high_jobs("all"), view=r_reg.ub_view)
    chk.units.append(HIGH_UNIT)
    chk.note("high_orders", HIGH_NOTE)
    uh = F.load(HIGH_CASES)
    chk.units.append(HIGH_CASES)
    total += r_reg.run_jobs(chk, uh, "R-REG.ub", _high_case_jobs("opsuite") + _high_case_jobs("lfs") +
                            _high_case_jobs("bfs"), view=r_reg.ub_view)
    for n in _cases_units():
        u = F.load(n)
        chk.units.append(n)
        total += r_reg.run_jobs(chk, u, "R-REG.ub", cases, view=r_reg.ub_view)
    chk.note("regions_evaluated", total)
    chk.exhaustive = True
    units = _lib_units(["cases_off"])
    r_small.r_opt(chk, units)
    r_own.field_types(chk, units)
    r_own.lifetimes(chk, units + _example_units())
    r_own.invalidation(chk, units + _example_units())
    r_own.returned_references(chk, units + _example_units())
    r_own.api_returns(chk, units)
    # (R-LIFE.seq is not used here: reading a moved-from library object is defined behaviour - it is C20's concern)
    r_small.r_eigen_init(chk, units + _example_units(), lambda f: C.in_repo(f.decl["pfile"]))
    r_inv.grid_move(chk, units)
    chk.floor("R-REG.ub", chk.rules["R-REG.ub"]["instances"], 100, "(function, clause) obligations")
    # (no floor on R-OPT sites: a refactoring may legitimately remove optionals; the positive controls keep
    #  the rule from passing vacuously)
    from . import controls
    controls.require(chk, ['R-OPT', 'R-OWN.field', 'R-LIFE', 'R-LIFE.inval', 'R-LIFE.ret', 'R-API.ret',
                            'R-EX.init'])
    return chk


def C10():
    from . import r_reg, r_own, r_inv
    chk = Check("C10", "proof",
                "Induction over histories. Base + step by R-REG: every constructor accepts exactly the states the "
                "invariant allows (Grid: >=2 strictly increasing points; Support: (0,0) or start<end<=size; Spline: "
                "#coefficient arrays = #intervals), and every operation evaluated abstractly on valid operands "
                "(copies, moves, self-move, arithmetic, in-place forms, cross-order assignment, operator "
                "application, linearCombination, generator, interpolation; failing calls included) leaves every "
                "object it touched or produced valid; moved-from supports/splines are interval-free on the same "
                "grid. Completeness of the step by R-INV: every write site of a member of the three classes lies "
                "in a function the evaluator exercised, a defaulted whole-object transfer, or an element-value "
                "write. R-OWN.commit: nothing may throw after the first write of an in-place operation.",
                checker_cmd="bin/check C10")
    chk.trust(*REG_TRUST)
    chk.assume(REG_ASSUME[0], "a moved-from std::vector is empty (libstdc++); allocation failure and throwing scalar "
               "copies are out of scope", "callers keep no mutable alias to a vector handed to "
               "Grid(shared_ptr<const vector<T>>)")
    nsmall = 4 if C.tier() == "thorough" else 3
    lib, cases = _broad_jobs(nsmall)
    total = 0
    for n in _reg_unit_names():
        u = F.load(n)
        chk.units.append(n)
        total += r_reg.run_jobs(chk, u, "R-REG.inv", lib, view=r_reg.inv_view)
    for n in _cases_units():
        u = F.load(n)
        chk.units.append(n)
        total += r_reg.run_jobs(chk, u, "R-REG.inv", cases, view=r_reg.inv_view)
    chk.note("regions_evaluated", total)
    chk.note("functions_evaluated_abstractly", len(chk.executed))
    chk.exhaustive = True
    units = _lib_units(["cases_off"])
    nsites = r_inv.census(chk, units, chk.executed)
    r_own.commit_last(chk, units)
    chk.floor("R-INV", nsites, 8, "write sites of invariant-carrying members")
    chk.floor("R-REG.inv", chk.rules["R-REG.inv"]["instances"], 100, "(function, clause) obligations")
    from . import controls
    controls.require(chk, ['R-OWN.commit'])
    return chk


def C11():
    from . import r_reg, r_small
    chk = Check("C11", "proof",
                "R-REG: every validating entry point evaluated abstractly over all regions of its arguments and "
                "compared with the documented acceptance condition (both directions: invalid is refused with "
                "BSplineException, valid is never refused): 4 Grid constructors over all sequences up to length 4 "
                "of {a<b<c, unordered}; Support(grid,s,e) over all order types incl. 2^64-1; Spline(support, "
                "coefficients) over all (window, count); BSplineGenerator(knots[,grid]) over all knot sequences up "
                "to length 4-5 and four ways the grid can mismatch; generateBSplines<p> count check; "
                "linearCombination count checks; interpolate size and boundary-derivative checks at both nodes "
                "(incl. 0, order+1, 2^64-1). R-THR: every throw in the library is a BSplineException. Also the "
                "default boundary table of interpolation (the static clause of C12).",
                checker_cmd="bin/check C11")
    chk.trust(*REG_TRUST)
    chk.assume(REG_ASSUME[0], "the final row-count check of interpolate and solvability of the interpolation system "
               "are arithmetic and not decided")
    thorough = C.tier() == "thorough"
    total = 0
    for n in _reg_unit_names() + ["arch_off"]:   # the acceptance conditions hold for a user-defined scalar type too
        u = F.load(n)
        chk.units.append(n)
        jobs = _jobs("r_reg_sup", "grid_suite", [], maxlen=4 if thorough else 3, accessors=False)
        jobs += _jobs("r_reg_sup", "support_suite", range(2, 6 if thorough else 5), nmax=5 if thorough else 4)
        jobs += _jobs("r_reg_spl", "validity_suite", range(2, 6 if thorough else 5), nmax=5 if thorough else 4)
        jobs += _jobs("r_reg_spl", "lincomb_suite", [3], nmax=3)
        jobs += _jobs("r_reg_val", "generator_suite", range(0, 6 if thorough else 5), maxlen=5 if thorough else 4)[:-1]
        jobs += _jobs("r_reg_val", "interpolate_suite", range(2, 5 if thorough else 4), nmax=4 if thorough else 3,
                      orders=(1, 2, 3, 4) if thorough else (1, 2, 3))
        total += r_reg.run_jobs(chk, u, "R-REG.val", jobs, view=r_reg.clause_view(*r_reg.ACC_CLAUSES))
    # Grid(first, last) from a single-pass (input-iterator) range: its own unit, so that a constructor that stops
    # compiling for input iterators is reported here instead of breaking every check
    try:
        ui = F.load("iter_off")
        chk.units.append("iter_off")
        total += r_reg.run_jobs(chk, ui, "R-REG.val", _jobs("r_reg_sup", "grid_suite", [], maxlen=4 if thorough else 3,
                                                            accessors=False), view=r_reg.clause_view("single-pass"))
    except F.ExtractError as ex:
        import re as _re
        m = None
        for ln in ex.stderr.splitlines():
            m = _re.match(r"(.+?):(\d+):(\d+): error: (.*)$", ln)
            if m and C.in_repo(os.path.abspath(m.group(1))):
                break
            m = None
        if m is None:
            raise
        chk.rule("R-REG.val", r_reg.RULE_TEXT.get("R-REG.val", r_reg.RULE_TEXT["*"]))
        chk.bad("R-REG.val", "%s:%s" % (C.rel(os.path.abspath(m.group(1))), m.group(2)),
                "bspline::support::Grid::Grid<T>", "input-iterators-rejected",
                "Grid(first, last) no longer compiles for a single-pass (input-iterator) range, which the constructor "
                "template accepted on the reference tree: valid input is refused at compile time (" + m.group(4) + ")",
                witness=dict(unit="iter_off", compiler_output=ex.stderr[-1500:]))
    chk.note("regions_evaluated", total)
    chk.exhaustive = True
    r_small.r_thr(chk, _lib_units())
    chk.floor("R-REG.val", chk.rules["R-REG.val"]["instances"], 14, "(function, acceptance clause) obligations")
    chk.floor("R-THR", chk.rules["R-THR"]["instances"], 8, "throw expressions")
    from . import controls
    controls.require(chk, ['R-THR'])
    return chk


def C12():
    from . import r_reg
    chk = Check("C12", "other",
                "Decides the structural half of C12: the linear system that interpolate<T, order, Solver> hands to the "
                "solver is EQUIVALENT (same row space of the augmented matrix, exact rational arithmetic) to the system "
                "of the promised conditions - the piece of every interval takes the given ordinate at both of its nodes, "
                "derivatives 1..order-1 of neighbouring pieces agree at every interior node, every boundary condition "
                "(node, derivative order, value) holds - it has exactly (order+1)*(nodes-1) unknowns, every unknown is "
                "returned as exactly one coefficient of the result, the assembly stays inside the solver's index range "
                "and reads the solution only after solve(). With an exact solver and a uniquely solvable problem the "
                "returned spline therefore satisfies C12 exactly. NOT decided: solvability, and the backward error of "
                "the bundled dense solvers (Eigen / armadillo).")
    chk.trust(*REG_TRUST)
    chk.trust("vt::RecSolver (drivers/drv_core.h) is modelled natively: it records M(i,j), b(i), solve(), x(i)")
    chk.assume("matrix entries are polynomials of degree <= order in ONE interval width each (the evaluator checks that "
               "the assembly performs no comparison of scalar values, i.e. is branch-free in the data); agreement on "
               "order+1 distinct widths per position then is agreement for every grid",
               "the per-node loop body is uniform in the node index (index arithmetic with the constant order+1 only), so "
               "2..4 (5) nodes cover first / interior / last node and their neighbourhoods")
    thorough = C.tier() == "thorough"
    total = 0
    for n in _reg_unit_names() + ["arch_off"]:
        u = F.load(n)
        chk.units.append(n)
        jobs = [("bsv.r_reg_val", "interp_system_suite", dict(nmax=5 if thorough else 4, orders=(o,), ns=[m]))
                for o in ((1, 2, 3, 4) if thorough else (1, 2, 3)) for m in range(2, (6 if thorough else 5))]
        total += r_reg.run_jobs(chk, u, "R-REG.sys", jobs)
        # argument checks and the default boundary table (shared with C11)
        total += r_reg.run_jobs(chk, u, "R-REG.val", _jobs("r_reg_val", "interpolate_suite", range(2, 4), nmax=3,
                                                           orders=(1, 2, 3)))
    # orders 5 (and 6 in the thorough tier): factorial factors up to 6!, boundary derivatives up to the order
    uh = F.load(HIGH_UNIT)
    chk.units.append(HIGH_UNIT)
    total += r_reg.run_jobs(chk, uh, "R-REG.sys", [
        ("bsv.r_reg_val", "interp_system_suite", dict(nmax=3, orders=(o,), ns=[m], spacings=(1, 2, 3, 5, 7, 11, 13, 17)))
        for o in ((5, 6) if thorough else (5,)) for m in (2, 3)])
    total += r_reg.run_jobs(chk, uh, "R-REG.val", _jobs("r_reg_val", "interpolate_suite", range(2, 4), nmax=3,
                                                        orders=(5,)))
    chk.note("high_orders", HIGH_NOTE)
    chk.note("regions_evaluated", total)
    chk.floor("R-REG.sys", chk.rules["R-REG.sys"]["instances"], 1, "(function, clause) obligations on interpolate")
    if total < 800:
        raise AnalysisBroken("only %d regions of the interpolation system were evaluated" % total)
    return chk


def C14():
    from . import r_reg, r_own, r_grd
    chk = Check("C14", "other",
                "Value semantics by construction of the types plus abstract evaluation. R-OWN: no mutable member, no "
                "const-stripping cast, members are deep-copied values or shared_ptr<const>, the only non-const public "
                "members are (compound) assignments, nothing hands out mutable access to internals, and no "
                "possibly-throwing call is reachable after the first write of an in-place operation (commit-last); "
                "R-GRD.b: no write precedes the grid guard. R-REG: in every evaluated operation (arithmetic, scalar "
                "forms, linearCombination, operator application, forms, evaluation) the state of every operand is "
                "identical before and after, and refused in-place operations leave the target unchanged.")
    chk.trust(*REG_TRUST)
    chk.assume("scalar operations do not throw (operator*= updates elements in place)",
               "the caller keeps no mutable alias into a grid's vector")
    units = _lib_units()
    chk.units = [u.name for u in units]
    r_own.const_correctness(chk, units)
    r_own.field_types(chk, units)
    r_own.interface_shape(chk, units)
    r_own.commit_last(chk, units)
    r_own.api_returns(chk, units)
    r_own.api_params(chk, units)
    r_own.borrowed_shared(chk, units + [F.load("cases_off")])
    r_own.returned_references(chk, units)
    # operands handed over as named objects are never moved from (forwarding references go through std::forward);
    # decided on the instantiations from lvalues (drivers/drv_lvalue.h) as well
    from . import r_small as _rs
    try:
        fm_units = units + [F.load("cases_off"), F.load("lvalue")]
    except F.ExtractError:
        fm_units = units + [F.load("cases_off")]   # the lvalue driver not compiling is reported by C05-C07 (R-OWN.lvalue)
    _rs.r_forward_move(chk, fm_units, scope=lambda f: f.in_lib())
    r_grd.run(chk, units)
    nsmall = 4 if C.tier() == "thorough" else 3
    lib, cases = _broad_jobs(nsmall)
    total = 0
    for n in _reg_unit_names():
        total += r_reg.run_jobs(chk, F.load(n), "R-REG.unchanged", lib, view=r_reg.val_view)
    for n in _cases_units():
        total += r_reg.run_jobs(chk, F.load(n), "R-REG.unchanged", cases, view=r_reg.val_view)
        chk.units.append(n)
    chk.note("regions_evaluated", total)
    chk.floor("R-OWN.iface", chk.rules["R-OWN.iface"]["instances"], 60, "public functions")
    chk.floor("R-OWN.field", chk.rules["R-OWN.field"]["instances"], 10, "data members")
    from . import controls
    controls.require(chk, ['R-OWN.fwdmove', 'R-OWN.mutable', 'R-OWN.cast', 'R-OWN.field', 'R-OWN.iface', 'R-OWN.commit', 'R-GRD.a',
                            'R-API.ret', 'R-LIFE.ret', 'R-API.param', 'R-OWN.borrow'])
    return chk


def C18():
    from . import r_own
    chk = Check("C18", "other",
                "Absence of shared mutable state and of thread-varying inputs in library code, for all schedules: "
                "R-EFF.static (the only static-duration objects are const/constexpr; thread-safe initialisation not "
                "disabled), R-OWN.mutable / R-OWN.cast (const operations cannot write), R-OWN.field (the only "
                "cross-object sharing is shared_ptr<const vector<T>>), R-EFF.closure (instantiated library code "
                "references nothing outside allow-listed namespaces and nothing on the deny-list of non-reentrant, "
                "clock/thread/environment-dependent or global-stream entities). Hence concurrent const calls and "
                "copies/destructions of objects sharing a grid cannot race and compute what a sequential run "
                "computes.")
    chk.trust("the C++ standard's guarantees for shared_ptr control blocks and concurrent const access to containers",
              "scalar-type operations are pure", "Boost's Gauss tables are immutable after thread-safe initialisation")
    names = ["dbl_on", "dbl_off", "cases_off", "arch_off"]
    if C.tier() == "thorough":
        names += [n for n in F.unit_names() if n.startswith(("ex_", "readme_"))]
    else:
        names += [n for n in F.unit_names() if n.startswith("ex_")][:2]
    us = F.load_many(names)
    units = [us[n] for n in names]
    chk.units = names
    r_own.statics(chk, units)
    r_own.const_correctness(chk, units)
    r_own.field_types(chk, units)
    r_own.call_closure(chk, units)
    r_own.borrowed_shared(chk, units)   # shared_ptr<const X> members are shared IMMUTABLE state only if they own it
    r_own.api_params(chk, units)        # const-reference parameters (user callables, operands) are only read
    chk.floor("R-EFF.static", chk.rules["R-EFF.static"]["instances"], 1, "static-duration variables")
    chk.floor("R-OWN.mutable", chk.rules["R-OWN.mutable"]["instances"], 10, "data members")
    from . import controls
    controls.require(chk, ['R-EFF.static', 'R-EFF.closure', 'R-OWN.mutable', 'R-OWN.cast', 'R-OWN.field', 'R-OWN.borrow',
                           'R-API.param'])
    return chk


ALL.update(C09=C09, C10=C10, C11=C11, C12=C12, C14=C14, C18=C18)


def C01():
    from . import r_reg
    chk = Check("C01", "other",
                "For every knot multiplicity pattern (all non-decreasing sequences up to the length bound over up to five "
                "distinct values, orders 0..3): generation returns exactly m-p-1 valid splines; the i-th function is "
                "supported exactly on its knot span [t_i, t_{i+p+1}] (zero elsewhere, not identically zero on a "
                "positive-width part of the span, interval-free if the span has no width); both construction routes give "
                "identical functions; no division by an exactly-zero knot difference. AND the polynomial pieces ARE the "
                "Cox-de Boor B-splines, by induction over the order (R-REG.cdb): base - the order-0 functions are the "
                "indicator functions (coefficient exactly 1); step - applyRecursionRelation<k>, evaluated on OPAQUE "
                "lower-order splines with exact knots, is exactly the linear map (x-t_i)/(t_{i+k-1}-t_i) s + (t_{i+k}-x)/"
                "(t_{i+k}-t_{i+1}) s' with zero-denominator terms dropped (each weight times its one knot difference is a "
                "polynomial of degree <= 1 in knot and midpoint; two spacings per pattern); wiring - the generated functions "
                "equal the reference recursion exactly on every pattern. Continuity and partition of unity then are "
                "theorems about Cox-de Boor B-splines; rounding is not decided.")
    chk.trust(*REG_TRUST)
    chk.assume(REG_ASSUME[0], "knot values enter the generator's control flow only through comparisons (equal / "
               "smaller), so the multiplicity pattern (order type of the knot sequence) determines count and supports")
    _stateless(chk)
    maxlen = 7 if C.tier() == "thorough" else 6
    total = 0
    for n in _reg_unit_names():
        u = F.load(n)
        chk.units.append(n)
        total += r_reg.run_jobs(chk, u, "R-REG.gen", _jobs("r_reg_val", "generator_support_suite",
                                                           range(2, maxlen + 1), maxlen=maxlen)[:-1])
        total += r_reg.run_jobs(chk, u, "R-REG.divzero", _jobs("r_reg_val", "generator_suite", range(0, 5), maxlen=4,
                                                               orders=(0, 1, 2, 3))[:-1],
                                view=lambda st: {k: v for k, v in st.items() if "division" in k[2]})
        total += r_reg.run_jobs(chk, u, "R-REG.cdb", [("bsv.r_reg_val", "coxdeboor_suite", dict(maxlen=maxlen, ns=[L]))
                                                      for L in range(2, maxlen + 1)])
    # orders 4, 5 (6 in the thorough tier): the same induction on the high-order unit - step k = 5, 6 (7) as a linear map,
    # wiring against the reference recursion on the longest knot sequences
    uh = F.load(HIGH_UNIT)
    chk.units.append(HIGH_UNIT)
    th = C.tier() == "thorough"
    total += r_reg.run_jobs(chk, uh, "R-REG.cdb", [("bsv.r_reg_val", "coxdeboor_suite", dict(
        maxlen=L, orders=((4, 5, 6) if th else (4, 5)), ns=[L], ks=((5, 6, 7) if th else (5, 6)))) for L in ((6, 7) if th else (6,))])
    chk.note("high_orders", HIGH_NOTE)
    chk.note("regions_evaluated", total)
    chk.note("knot_sequence_length_bound", maxlen)
    chk.exhaustive = True
    chk.floor("R-REG.gen", chk.rules["R-REG.gen"]["instances"], 3, "(function, clause) obligations")
    return chk


ALL["C01"] = C01
