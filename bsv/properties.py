"""Property checks: each function composes rule engines into the verdict for one property."""
from . import config as C
from . import facts as F
from .facts import AnalysisBroken
from .report import Check


def C19():
    from . import r_arch
    chk = Check("C19", "proof",
                "R-ARCH: the compiler's accept/reject decision on the current headers, instantiated with a "
                "minimal scalar archetype offering exactly the documented operations, for every function "
                "pattern of the core headers and the generic interpolate (clause decided: 'compile for any "
                "scalar type that offers only ...'; 'results are exact with an exact field type' is run-time "
                "and not decided)",
                checker_cmd="bsv-dump (clang 14 front end) on drivers/drv_arch.cpp with and without "
                            "-DBSPLINE_ADD_TEST_CHECKS; clang++ -fsyntax-only on drivers/neg_controls.cpp")
    chk.trust("clang 14 C++17 front end (g++ 12 in the thorough tier)",
              "vt::Arch (drivers/arch.h) is the documented requirement list, kept tight by the negative controls")
    chk.assume("a scalar type offering a superset of vt::Arch's operations accepts every program vt::Arch accepts "
               "(the library has no SFINAE on scalar capabilities; checked: enable_if only tests is_operator_v / "
               "is_spline_v)")
    names = ["arch_on", "arch_off"]
    units = r_arch.positive_witness(chk, names)
    r_arch.negative_controls(chk)
    if len(units) == len(names):
        ncov = r_arch.coverage(chk, units)
        chk.floor("R-ARCH.cov", ncov, 150, "function patterns instantiated with the archetype")
        r_arch.lint(chk, units)
        if C.tier() == "thorough":
            r_arch.gxx_witness(chk)
    return chk


ALL = {"C19": C19}


def _lib_units(extra=()):
    names = ["dbl_on", "dbl_off"] + list(extra)
    us = F.load_many(names)
    return [us[n] for n in names]


def C08():
    from . import r_grd
    chk = Check("C08", "other",
                "R-GRD: must-pass-through of a grid comparison on every normal path of every public library "
                "function with two or more grid-carrying inputs (derived from the signatures), with call-graph "
                "summaries; decided on the CFG of every instantiation for all inputs",
                checker_cmd="bin/check C08")
    units = _lib_units()
    chk.units = [u.name for u in units]
    ents = r_grd.run(chk, units)
    chk.floor("R-GRD.a", len(ents), 14, "entry points with >=2 grid-carrying inputs")
    return chk


ALL["C08"] = C08


def C13():
    from . import r_reg, r_reg_sup
    chk = Check("C13", "proof",
                "R-REG: abstract evaluation of every method of Support (and the Grid accessors it uses) from the "
                "extracted source over the finite domain of order/adjacency/wrap-around types of its integer "
                "arguments, compared with specification functions written from the statement (hull, common grid "
                "points, mutually inverse conversions, 'not contained' for every other index incl. 2^64-1)",
                checker_cmd="bin/check C13 (bsv/interp.py over the statement trees of unit dbl_off / dbl_on)")
    chk.trust("bsv-dump extraction (clang 14 AST)", "bsv/interp.py semantics of the C++ subset and its models of "
              "std::vector/optional/shared_ptr/min/max/lower_bound", "the specification functions in bsv/r_reg_sup.py")
    chk.assume("small-model argument: Support/Grid code only compares its integer inputs, takes min/max and adds or "
               "subtracts them or 0/1/2 (checked: anything else leaves the fragment -> exit 2), so its behaviour "
               "depends only on the order/adjacency/wrap type of {0,start,end,size,index}; every such type has a "
               "representative with size<=nmax or at the top of the 64-bit range")
    nmax = 7 if C.tier() == "thorough" else 5
    names = ["dbl_off", "dbl_on"] if C.tier() == "thorough" else ["dbl_off"]
    total = 0
    for n in names:
        u = F.load(n)
        chk.units.append(n)
        w = r_reg.World(u)
        total += r_reg_sup.support_suite(chk, w, "R-REG.sup", nmax)
        total += r_reg_sup.grid_suite(chk, w, "R-REG.grid", 3 if C.tier() == "quick" else 4)
    chk.note("oracle_self_check_triples", r_reg_sup.check_oracle(6 if C.tier() == "thorough" else 5))
    chk.note("regions_evaluated", total)
    chk.note("grid_size_bound", nmax)
    chk.exhaustive = True
    chk.floor("R-REG.sup", chk.rules["R-REG.sup"]["instances"], 25, "(function, clause) obligations on Support")
    return chk


ALL["C13"] = C13
