"""Per-function control-flow graph utilities (clang CFG, no EH edges)."""
from .facts import AnalysisBroken


class CFG:
    def __init__(self, func):
        self.f = func
        raw = func.cfg
        if raw is None:
            raise AnalysisBroken("no CFG for %s" % func.qn)
        self.entry = raw["entry"]
        self.exit = raw["exit"]
        self.blocks = {b["id"]: b for b in raw["blocks"]}
        # edges clang marks infeasible (compile-time constant condition: `if constexpr`, `if (false)`, `while (true)` exit)
        # are not paths of the program
        self.succ = {b: [s for i, s in enumerate(blk["succ"]) if s is not None and i not in blk.get("unr", ())]
                     for b, blk in self.blocks.items()}
        self.pred = {b: [] for b in self.blocks}
        for b, ss in self.succ.items():
            for s in ss:
                self.pred[s].append(b)
        self._dom = None

    # -- elements ------------------------------------------------------------
    def elements(self, b):
        """Statement nodes of a block in evaluation order (constructor initialisers included)."""
        nodes = self.f.nodes
        out = []
        for e in self.blocks[b]["el"]:
            n = nodes.get(abs(e))
            if n is not None:
                out.append(n)
        return out

    def unjoined(self):
        nodes = self.f.nodes
        return sum(1 for blk in self.blocks.values() for e in blk["el"] if abs(e) not in nodes)

    def last(self, b):
        el = self.elements(b)
        return el[-1] if el else None

    def is_throw_block(self, b):
        blk = self.blocks[b]
        if blk["noret"]:
            return True
        l = self.last(b)
        return l is not None and l["k"] == "CXXThrowExpr"

    def normal_exit_preds(self):
        """Blocks that reach EXIT by returning / falling off the end (not by throw / noreturn)."""
        return [p for p in self.pred[self.exit] if not self.is_throw_block(p)]

    def cond(self, b):
        """The expression whose value decides this block's branch.  For `if (a && b)` clang reports the whole
        condition on the block that evaluates the last operand: descend to that operand."""
        c = self.blocks[b]["cond"]
        c = self.f.nodes.get(c) if c is not None else None
        t = self.blocks[b]["term"]
        while c is not None:
            k = c["k"]
            if k in ("ParenExpr", "ExprWithCleanups", "ImplicitCastExpr") and len(c["ch"]) == 1 and \
                    c.get("ck") in (None, "NoOp", "LValueToRValue"):
                c = c["ch"][0]
                continue
            if k == "BinaryOperator" and c.get("op") in ("&&", "||") and c["id"] != t:
                c = c["ch"][1]
                continue
            break
        return c

    def term(self, b):
        t = self.blocks[b]["term"]
        return self.f.nodes.get(t) if t is not None else None

    # -- reachability ----------------------------------------------------------
    def reachable(self, start=None, cut_blocks=(), cut_edges=()):
        """Blocks reachable from `start` when the outgoing edges of cut_blocks and cut_edges are removed."""
        start = self.entry if start is None else start
        seen = {start}
        stack = [start]
        cut_blocks = set(cut_blocks)
        cut_edges = set(cut_edges)
        while stack:
            b = stack.pop()
            if b in cut_blocks:
                continue
            for s in self.succ[b]:
                if (b, s) in cut_edges:
                    continue
                if s not in seen:
                    seen.add(s)
                    stack.append(s)
        return seen

    def reaches_only_throw(self, b):
        """True if every path from block b ends in a throw / noreturn (never a normal exit)."""
        seen = self.reachable(start=b, cut_blocks=[x for x in self.blocks if self.is_throw_block(x)])
        for x in seen:
            if x == self.exit:
                # reached exit through a non-throw predecessor?
                for p in self.pred[self.exit]:
                    if p in seen and not self.is_throw_block(p):
                        return False
        return True

    def path(self, src, dst, cut_blocks=(), cut_edges=()):
        """One block path src -> dst avoiding the cuts (for witnesses), or None."""
        cut_blocks = set(cut_blocks)
        cut_edges = set(cut_edges)
        prev = {src: None}
        queue = [src]
        while queue:
            b = queue.pop(0)
            if b == dst:
                out = []
                while b is not None:
                    out.append(b)
                    b = prev[b]
                return out[::-1]
            if b in cut_blocks:
                continue
            for s in self.succ[b]:
                if (b, s) in cut_edges or s in prev:
                    continue
                prev[s] = b
                queue.append(s)
        return None

    def describe_path(self, blocks):
        out = []
        for b in blocks:
            el = self.elements(b)
            lines = sorted({n.get("l") for n in el if n.get("l")})
            out.append(dict(block=b, lines=lines[:1] + lines[-1:] if lines else []))
        return out

    # -- dominators --------------------------------------------------------------
    def dominators(self):
        if self._dom is not None:
            return self._dom
        reach = self.reachable()
        order = [b for b in self.blocks if b in reach]
        dom = {b: set(order) for b in order}
        dom[self.entry] = {self.entry}
        changed = True
        while changed:
            changed = False
            for b in order:
                if b == self.entry:
                    continue
                ps = [p for p in self.pred[b] if p in reach]
                new = set(order)
                for p in ps:
                    new &= dom[p]
                new = new | {b}
                if new != dom[b]:
                    dom[b] = new
                    changed = True
        self._dom = dom
        return dom

    def block_of(self, node_id):
        for b, blk in self.blocks.items():
            for e in blk["el"]:
                if abs(e) == node_id:
                    return b
        return None

    def position(self, node_id):
        for b, blk in self.blocks.items():
            for i, e in enumerate(blk["el"]):
                if abs(e) == node_id:
                    return (b, i)
        return None

    def dominates_pos(self, a, b):
        """Position a=(block, idx) dominates position b."""
        if a[0] == b[0]:
            return a[1] <= b[1]
        return a[0] in self.dominators().get(b[0], set())
