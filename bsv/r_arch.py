"""R-ARCH: scalar archetype compile witnesses (property C19).

The compiler's accept/reject decision on the current source *is* the analysis:
 * positive witness  -- the archetype drivers (whole core API + generic interpolate, on the
                        grid of template arguments of drivers/drv_core.h, self-checks on and off)
                        type-check with the minimal scalar vt::Arch;
 * coverage          -- every function pattern of include/bspline is instantiated with vt::Arch
                        (or is scalar-free, or is on the short exemption list);
 * negative controls -- each operation the documentation does not grant is rejected for vt::Arch
                        (the archetype is tight);
 * lint              -- what a type cannot forbid (numeric_limits<Arch> compiles silently).
"""
import os
import re
import subprocess

from . import config as C
from . import facts as F
from .facts import AnalysisBroken

# patterns that are not part of C19's claim ("core templates and the generic interpolation routine")
EXEMPT = {
    "bspline::interpolation::interpolateUsingEigen": "Eigen adapter (double-like types only; not the generic routine)",
    "bspline::interpolation::interpolateUsingArmadillo": "Armadillo adapter (double only)",
    "bspline::integration::integrate": "numerical quadrature needs Boost.Math's requirements, not a core template",
}


def _exempt(pqn):
    for k, why in EXEMPT.items():
        if pqn == k or pqn.startswith(k + "::") or pqn.startswith(k + "("):
            return why
    return None


def _first_repo_error(stderr):
    """(file, line, message, stack) of the first error; prefer the deepest frame inside the repo."""
    lines = stderr.splitlines()
    for i, ln in enumerate(lines):
        m = re.match(r"(.+?):(\d+):(\d+): (?:fatal )?error: (.*)$", ln)
        if not m:
            continue
        f, l, _, msg = m.groups()
        stack = []
        for ln2 in lines[i + 1:i + 40]:
            m2 = re.match(r"(.+?):(\d+):(\d+): note: (in instantiation of .*|.*requested here.*)$", ln2)
            if m2:
                stack.append("%s:%s %s" % (C.rel(m2.group(1)), m2.group(2), m2.group(4)[:160]))
            if re.match(r".+?:\d+:\d+: (?:fatal )?error:", ln2):
                break
        if not C.in_repo(os.path.abspath(f)):
            # error reported in a std header: blame the first repo frame of the instantiation stack
            for ln2 in lines[i + 1:i + 40]:
                m2 = re.match(r"(.+?):(\d+):(\d+): note:", ln2)
                if m2 and C.in_repo(os.path.abspath(m2.group(1))):
                    return os.path.abspath(m2.group(1)), int(m2.group(2)), msg, stack
        return os.path.abspath(f), int(l), msg, stack
    return None


def positive_witness(chk, unit_names):
    chk.rule("R-ARCH.pos", "every core template and the generic interpolate type-check when instantiated with "
                           "vt::Arch, a scalar offering exactly the documented operations (clang front end; g++ too "
                           "in the thorough tier)")
    res = F.load_many(unit_names, allow_fail=True)
    good = {}
    for n in unit_names:
        r = res[n]
        if isinstance(r, F.ExtractError):
            e = _first_repo_error(r.stderr)
            if e is None:
                raise AnalysisBroken("archetype driver %s failed without a diagnostic:\n%s" % (n, r.stderr[-800:]))
            f, l, msg, stack = e
            if not C.in_repo(f):
                raise AnalysisBroken("archetype driver %s: error outside the repository: %s:%d %s" % (n, f, l, msg))
            chk.bad("R-ARCH.pos", "%s:%d" % (C.rel(f), l), "(template instantiated with vt::Arch)",
                    "compile-error:" + re.sub(r"\s+", " ", msg)[:80],
                    ("library code asks an iterator for more than an input iterator offers (vt::InIt, drivers/arch.h): "
                     if "vt::InIt" in msg else
                     "library code asks the scalar type for an operation outside the documented list: ") + msg,
                    witness=dict(unit=n, instantiation_stack=stack[:8], diagnostic=msg))
        else:
            good[n] = r
            chk.units.append(n)
            cnt = sum(1 for f in r.funcs if f.in_lib() and not f.dependent and "vt::Arch" in f.qn)
            chk.ok("R-ARCH.pos", C.rel(C.units()[n]["src"]),
                   "unit %s accepted: %d library function bodies instantiated with vt::Arch type-check" % (n, cnt),
                   key=("pos", n))
    return good


def gxx_witness(chk):
    """Second compiler (thorough tier): g++ -fsyntax-only on the archetype driver."""
    specs = C.units()
    for n in ("arch_on", "arch_off"):
        s = specs[n]
        cmd = ["g++", "-fsyntax-only", "-fmax-errors=5", "-w"] + s["flags"] + [s["src"]]
        r = subprocess.run(cmd, capture_output=True, text=True)
        if r.returncode == 0:
            chk.ok("R-ARCH.pos", "drivers/drv_arch.cpp", "g++ accepts archetype driver (%s)" % n,
                   key=("gxx", n))
            continue
        m = None
        for ln in r.stderr.splitlines():
            m = re.match(r"(.+?):(\d+):(\d+): error: (.*)$", ln)
            if m and C.in_repo(os.path.abspath(m.group(1))):
                break
        if not m:
            raise AnalysisBroken("g++ rejects the archetype driver outside the repository:\n" + r.stderr[-800:])
        chk.bad("R-ARCH.pos", "%s:%s" % (C.rel(os.path.abspath(m.group(1))), m.group(2)),
                "(template instantiated with vt::Arch, g++)", "compile-error:" + m.group(4)[:80],
                "g++ rejects library code for the minimal scalar: " + m.group(4), witness=dict(unit=n))


def coverage(chk, units):
    """Every lib pattern has an instantiation mentioning vt::Arch (or needs none)."""
    chk.rule("R-ARCH.cov", "every function pattern declared in include/bspline is instantiated (with a body) in "
                           "the archetype drivers, so the positive witness covers it; both outcomes of every "
                           "`if constexpr` are seen")
    pats = {}
    for u in units.values():
        for d in u.decls.values():
            if d["k"] != "fn" or not C.in_lib(d.get("pfile", "")):
                continue
            if d.get("deleted") or (d.get("implicit") and not d.get("hasbody")):
                continue
            if d["kind"] == "CXXDeductionGuide":
                continue
            p = pats.setdefault((d["pfile"], d["pline"]), dict(pqn=d["pqn"], inst=[], arch=[], nontemplate=False,
                                                                purevirtual=False, userdecl=False))
            if not d.get("implicit"):
                p["userdecl"] = True
            if d.get("lambdaparent") is not None:
                par = u.decls.get(d["lambdaparent"])
                if par is not None and par.get("pfile"):
                    p["parent"] = (par["pfile"], par["pline"])
            if not d["dependent"] and d["hasbody"]:
                p["inst"].append(d["qn"])
                if "vt::Arch" in d["qn"] or "vt::Arch" in d.get("recqn", ""):
                    p["arch"].append(d["qn"])
                if not d.get("istemplate") and "<" not in d.get("recqn", ""):
                    p["nontemplate"] = True
            if d.get("virtual") and not d["hasbody"]:
                p["purevirtual"] = True
    holes = []
    n_cov = 0
    for key, p in sorted(pats.items()):
        where = "%s:%d" % (C.rel(key[0]), key[1])
        why = _exempt(p["pqn"])
        if why:
            chk.note("exempt_patterns", dict(chk.notes.get("exempt_patterns", {}), **{p["pqn"]: why}))
            continue
        if not p["userdecl"]:
            continue  # implicit special member of a class: nothing written in the repo
        if p["arch"]:
            n_cov += 1
            chk.ok("R-ARCH.cov", where, "%s: %d instantiation(s) with vt::Arch, e.g. %s" % (
                p["pqn"], len(p["arch"]), p["arch"][0][:140]), key=key)
        elif p["nontemplate"] and p["inst"]:
            n_cov += 1
            chk.ok("R-ARCH.cov", where, "%s: not a template, no scalar involved" % p["pqn"], key=key)
        elif p["inst"] and not any("vt::" in q or "double" in q for q in p["inst"]) and \
                all(_scalar_free(q) for q in p["inst"]):
            n_cov += 1
            chk.ok("R-ARCH.cov", where, "%s: instantiated, template arguments carry no scalar type" % p["pqn"],
                   key=key)
        elif p["purevirtual"] and not p["inst"]:
            continue
        elif "::internal::" in p["pqn"] and not p["inst"]:
            # an implementation helper that nothing instantiates any more: no code path of the API reaches it (a path that
            # did would itself have to be instantiated, and would instantiate the helper)
            chk.note("unused_internal_helpers", sorted(set(chk.notes.get("unused_internal_helpers", []) + [
                "%s %s" % (where, p["pqn"])])))
        elif p.get("parent") in pats and pats[p["parent"]]["arch"]:
            # a lambda inside a function that IS instantiated with the archetype, but only in its instantiations
            # for other scalar types: it sits in a compile-time branch on a property of T. Not a hole of the witness
            # (the archetype cannot reach it by construction); the branch is decided by the value rules (R-REG is
            # evaluated on the double AND on the archetype instantiation).
            chk.note("scalar_type_dispatched_patterns", sorted(set(chk.notes.get(
                "scalar_type_dispatched_patterns", []) + ["%s %s" % (where, p["pqn"])])))
        else:
            holes.append("%s %s" % (where, p["pqn"]))
    if holes:
        raise AnalysisBroken("coverage hole: function pattern(s) never instantiated with vt::Arch by "
                             "drivers/drv_core.h: " + "; ".join(holes[:12]))
    return n_cov


def _scalar_free(qn):
    # template arguments consisting only of integers / operator types
    return "vt::Arch" not in qn


def negative_controls(chk):
    chk.rule("R-ARCH.neg", "each operation outside the documented list is rejected for vt::Arch "
                           "(proves the archetype is tight; a control that starts compiling is exit 2)")
    src = os.path.join(C.DRIVERS, "neg_controls.cpp")
    ctl, okl = {}, {}
    for i, ln in enumerate(open(src), 1):
        m = re.match(r"void (ctl_\w+)\(\)", ln)
        if m:
            ctl[i] = m.group(1)
        m = re.match(r"void (ok_\w+)\(\)", ln)
        if m:
            okl[i] = m.group(1)
    r = subprocess.run(["clang++", C.STD, "-fsyntax-only", "-ferror-limit=0", "-I" + C.DRIVERS, src],
                       capture_output=True, text=True)
    hit = set()
    for ln in r.stderr.splitlines():
        m = re.match(r"(.+?)neg_controls\.cpp:(\d+):\d+: (error|note)", ln)
        if m:
            hit.add(int(m.group(2)))
    for l, name in okl.items():
        if l in hit:
            raise AnalysisBroken("R-ARCH.neg: allowed operations (%s) are rejected - archetype too narrow" % name)
    for l, name in sorted(ctl.items()):
        chk.control("R-ARCH.neg", name, l in hit)
    if len(ctl) < 35:
        raise AnalysisBroken("R-ARCH.neg: only %d negative controls found" % len(ctl))
    return len(ctl)


LINT_DENY = ("std::numeric_limits<", "std::__numeric_limits", "std::complex<")
LINT_FILES = ("/cmath", "/math.h", "/bits/mathcalls.h", "/bits/std_abs.h", "/limits", "/complex", "/cstdlib",
              "/ostream", "/istream", "/iostream")


def lint(chk, units):
    chk.rule("R-ARCH.lint", "core code instantiated with vt::Arch references no declaration of "
                            "std::numeric_limits / <cmath> / <complex> / stream insertion with a scalar operand "
                            "(operations a type cannot forbid at compile time)")
    n = 0
    for u in units.values():
        for f in u.funcs:
            if not f.in_lib() or f.dependent:
                continue
            if "vt::Arch" not in f.qn:
                continue
            n += 1
            for x in f.all_nodes():
                did = x.get("d") if x["k"] in ("DeclRefExpr", "MemberExpr") else x.get("callee")
                if did is None:
                    continue
                d = u.decls.get(did)
                if not d:
                    continue
                qn = d.get("qn", "")
                bad = None
                if any(qn.startswith(p) for p in LINT_DENY) and "vt::Arch" in qn:
                    bad = "uses %s" % qn[:100]
                elif d.get("file", "").endswith(LINT_FILES[:6]) and not d.get("inroot") and "vt::Arch" in (
                        qn + " ".join(p_["type"] for p_ in d.get("params", ()))):
                    # a <cmath>/<limits>/<complex> entity applied to the scalar (numeric_limits<size_t> etc. are fine)
                    bad = "calls %s from %s" % (qn[:80], os.path.basename(d["file"]))
                elif d.get("name") in ("operator<<", "operator>>") and x["k"].endswith("CallExpr"):
                    args = [u.type(a) for a in F.kids(x)[1:]]
                    if any(t.replace("const ", "").strip(" &") == "vt::Arch" for t in args):
                        bad = "streams a scalar"
                if bad:
                    chk.bad("R-ARCH.lint", f.loc(x), f.pqn, "lint:" + bad[:60],
                            "core code %s, which the documented scalar requirements do not provide" % bad,
                            witness=dict(instantiation=f.qn))
    chk.ok("R-ARCH.lint", "include/bspline", "%d archetype instantiations scanned" % n, key="lint")
    return n


# ------------------------------------------------------------------------------------------------
# R-ARCH.proxy: expression-template scalars
# ------------------------------------------------------------------------------------------------
PROXY = "vt::ExprX"


def proxy_free(chk, unit_name="archx_off"):
    """The documented requirements ask for the four arithmetic operators, not for operators that RETURN the scalar type:
    multiprecision and rational types commonly return expression proxies that refer to their operands and are evaluated
    when converted to the scalar (boost::multiprecision number<.., et_on>, GMP's mpq_class). Library code therefore has to
    name the scalar type wherever an arithmetic result outlives its full expression."""
    from . import facts as F
    from .facts import walk
    rule = "R-ARCH.proxy"
    chk.rule(rule, "instantiated with a scalar whose operators return expression proxies (vt::ArchX, drivers/archx.h) no "
                   "variable, data member, parameter or return value of library code has the proxy type (`auto x = a * b` "
                   "would keep a proxy that refers to dead temporaries; `T x = a * b` evaluates it)")
    try:
        u = F.load(unit_name)
    except F.ExtractError as ex:
        m = None
        for ln in ex.stderr.splitlines():
            m = re.match(r"(.+?):(\d+):(\d+): error: (.*)$", ln)
            if m and C.in_repo(os.path.abspath(m.group(1))):
                break
            m = None
        if m is None:
            raise
        chk.bad(rule, "%s:%s" % (C.rel(os.path.abspath(m.group(1))), m.group(2)),
                "(template instantiated with vt::ArchX)", "compile-error:" + m.group(4)[:80],
                "library code does not compile for a scalar type whose operators return expression proxies: " + m.group(4),
                witness=dict(unit=unit_name))
        return 0
    chk.units.append(unit_name)
    n = 0
    seen = set()
    for f in u.funcs:
        if f.dependent or not f.in_lib():
            continue
        n += 1
        d = f.decl
        sites = []
        if PROXY in d.get("rtype", ""):
            sites.append((f.where(), "returns the proxy type %s" % d["rtype"][:60]))
        for p in d.get("params", ()):
            if PROXY in p["type"]:
                sites.append((f.where(), "parameter '%s' has the proxy type (a template parameter was deduced as the proxy)"
                              % p["name"]))
        for x in f.all_nodes():
            if x["k"] == "VarDecl" and PROXY in u.types[x["t"]]:
                sites.append((f.loc(x), "variable '%s' has the proxy type %s" % (x.get("n"), u.types[x["t"]][:50])))
        for where, what in sites:
            key = (where, what)
            if key in seen:
                continue
            seen.add(key)
            chk.bad(rule, where, f.pqn, "proxy:" + what[:40],
                    "%s: for an expression-template scalar this keeps a proxy that refers to temporaries which are destroyed at "
                    "the end of the full expression (declare the scalar type instead of auto)" % what,
                    witness=dict(instantiation=f.qn, unit=u.name))
    for dd in u.decls.values():
        if dd["k"] == "rec" and C.in_lib(dd.get("file", "") or dd.get("pfile", "")):
            for fd in dd.get("fields", ()):
                if PROXY in fd["type"]:
                    key = (dd.get("qn"), fd["name"])
                    if key in seen:
                        continue
                    seen.add(key)
                    chk.bad(rule, "%s:%s" % (C.rel(dd.get("pfile") or dd.get("file", "")), dd.get("pline") or dd.get("line", 0)),
                            dd.get("pqn") or dd.get("qn", "?"), "proxy-member:" + fd["name"],
                            "data member '%s' of %s has the proxy type: the object stores an unevaluated expression" % (
                                fd["name"], (dd.get("qn") or "?")[:80]), witness=dict(unit=u.name))
    if not chk.rules[rule]["violations"]:
        chk.ok(rule, "include/bspline", "%d instantiated functions: arithmetic results are always named with the scalar type" % n,
               key="proxy")
    return n


def proxy_control(chk):
    """Positive control: drivers/controls_archx.cpp keeps an arithmetic result in `auto`; the type test must see it."""
    from . import facts as F
    u = F.load("controls_archx")
    hit = False
    for f in u.funcs:
        if f.dependent or "vt_control" not in f.qn:
            continue
        for x in f.all_nodes():
            if x["k"] == "VarDecl" and PROXY in u.types[x["t"]] and x.get("n") == "kept":
                hit = True
    chk.control("R-ARCH.proxy", "auto-keeps-a-proxy", hit)
