"""Paths, unit table and tier handling shared by all checks."""
import os

VERIF = os.path.dirname(os.path.dirname(os.path.abspath(__file__)))
REPO = os.path.abspath(os.environ.get("BSV_REPO", "/repo"))
DRIVERS = os.path.join(VERIF, "drivers")
BUILD = os.path.join(VERIF, ".build")
CACHE = os.path.join(VERIF, ".cache")
EVIDENCE = os.environ.get("BSV_EVIDENCE") or os.path.join(VERIF, "evidence")
REPLAYS = os.path.join(EVIDENCE, "replays")
TOOL = os.path.join(BUILD, "bsv-dump")
KNOWN_FINDINGS = os.path.join(VERIF, "KNOWN_FINDINGS.txt")

LIB = os.path.join(REPO, "include", "bspline") + "/"
INCLUDE = os.path.join(REPO, "include")

STD = "-std=gnu++17"
EIGEN_INC = "/usr/include/eigen3"


def tier():
    t = os.environ.get("VERIF_TIER", "quick")
    return t if t in ("quick", "thorough") else "quick"


def seed():
    try:
        return int(os.environ.get("VERIF_SEED", "0"))
    except ValueError:
        return 0


def rel(path):
    """Path relative to the analysed repository (for reports)."""
    if path and path.startswith(REPO + "/"):
        return path[len(REPO) + 1:]
    if path and path.startswith(VERIF + "/"):
        return "verif:" + path[len(VERIF) + 1:]
    return path


LIB_EXTRA = []  # control mode: files treated as library code (drivers/controls.cpp)


def in_lib(path):
    return bool(path) and (path.startswith(LIB) or any(path.startswith(x) for x in LIB_EXTRA))


def in_repo(path):
    return bool(path) and (path.startswith(REPO + "/") or any(path.startswith(x) for x in LIB_EXTRA))


def in_drivers(path):
    return bool(path) and path.startswith(DRIVERS + "/")


# ---------------------------------------------------------------------------
# Units.  name -> (source, extra flags, mode, tier)
# ---------------------------------------------------------------------------
CHK = "-DBSPLINE_ADD_TEST_CHECKS"
EIG = "-DBSPLINE_INTERPOLATION_USE_EIGEN"


def _lib_flags():
    return [STD, "-I" + INCLUDE, "-I" + DRIVERS]


def _example_flags():
    return [STD, "-I" + INCLUDE, "-I" + os.path.join(REPO, "examples"),
            "-isystem", EIGEN_INC, EIG, CHK]


def units():
    u = {}
    d = DRIVERS
    u["arch_on"] = dict(src=d + "/drv_arch.cpp", flags=_lib_flags() + [CHK], mode="full", tier="quick")
    u["arch_off"] = dict(src=d + "/drv_arch.cpp", flags=_lib_flags(), mode="full", tier="quick")
    u["dbl_on"] = dict(src=d + "/drv_double.cpp", flags=_lib_flags() + ["-isystem", EIGEN_INC, EIG, CHK],
                       mode="full", tier="quick")
    u["dbl_off"] = dict(src=d + "/drv_double.cpp", flags=_lib_flags() + ["-isystem", EIGEN_INC, EIG],
                        mode="full", tier="quick")
    u["high_off"] = dict(src=d + "/drv_high.cpp", flags=_lib_flags(), mode="full", tier="quick")
    u["cases_high"] = dict(src=d + "/drv_cases_high.cpp", flags=_lib_flags(), mode="full", tier="quick")
    u["cases_off"] = dict(src=d + "/drv_cases.cpp", flags=_lib_flags(), mode="full", tier="quick")
    u["archx_off"] = dict(src=d + "/drv_archx.cpp", flags=_lib_flags(), mode="full", tier="quick")
    u["iter_arch"] = dict(src=d + "/drv_iter_arch.cpp", flags=_lib_flags(), mode="full", tier="quick")
    u["iter_off"] = dict(src=d + "/drv_iter.cpp", flags=_lib_flags(), mode="full", tier="quick")
    u["lvalue"] = dict(src=d + "/drv_lvalue.cpp", flags=_lib_flags(), mode="full", tier="quick")
    u["cases_arch"] = dict(src=d + "/drv_cases_arch.cpp", flags=_lib_flags(), mode="full", tier="quick")
    u["cases_on"] = dict(src=d + "/drv_cases.cpp", flags=_lib_flags() + [CHK], mode="full", tier="thorough")
    u["controls"] = dict(src=d + "/controls.cpp", flags=_lib_flags() + [CHK], mode="full", tier="quick")
    u["controls_archx"] = dict(src=d + "/controls_archx.cpp", flags=_lib_flags(), mode="full", tier="quick")
    u["controls_eigen"] = dict(src=d + "/controls_eigen.cpp", flags=_lib_flags() + [
        "-isystem", "/usr/include/eigen3"], mode="full", tier="quick")
    ex = os.path.join(REPO, "examples")
    if os.path.isdir(ex):
        for f in sorted(os.listdir(ex)):
            if f.endswith(".cpp"):
                u["ex_" + f[:-4]] = dict(src=os.path.join(ex, f), flags=_example_flags(), mode="full",
                                         tier="quick")
    g = os.path.join(REPO, "readme", "generation", "generation.cpp")
    if os.path.exists(g):
        u["readme_generation"] = dict(src=g, flags=[STD, "-I" + INCLUDE], mode="full", tier="quick")
    a = os.path.join(REPO, "readme", "accuracy", "harmonic-oscillator.cpp")
    if os.path.exists(a):
        u["readme_accuracy"] = dict(src=a, flags=[STD, "-I" + INCLUDE, "-isystem", EIGEN_INC, "-pthread"],
                                    mode="full", tier="thorough")
    tdir = os.path.join(REPO, "tests")
    if os.path.isdir(tdir):
        for root, _, files in sorted(os.walk(tdir)):
            for f in sorted(files):
                if f.endswith(".cpp"):
                    p = os.path.join(root, f)
                    name = "test_" + os.path.relpath(p, tdir).replace("/", "_")[:-4]
                    u[name] = dict(src=p, flags=[STD, "-I" + INCLUDE, "-I" + tdir,
                                                 "-I" + os.path.join(REPO, "examples"),
                                                 "-isystem", EIGEN_INC, EIG, CHK],
                                   mode="census", tier="thorough")
    return u
