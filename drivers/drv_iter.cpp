// iterator-category driver for double (see drv_iter.h); the archetype instantiation lives in drv_arch.cpp.
#include "drv_iter.h"
template class bspline::support::Grid<double>;
template void vt::iterator_api<double>();
