// Instantiation driver: instantiates the public API of the library for a scalar
// type T on a grid of template arguments, so that every function pattern in
// include/bspline is type-checked and appears in the extracted fact base with
// resolved callees.  Never compiled to an executable, never run.
#ifndef VT_DRV_CORE_H
#define VT_DRV_CORE_H
#include <bspline/Core.h>
#include <bspline/interpolation/interpolation.h>

#include <list>
#include <utility>
#include <vector>

#include "arch.h"   // vt::InIt (single-pass iterator archetype)

#ifndef VT_MAXORDER
#define VT_MAXORDER 3
#endif

namespace vt {
using namespace bspline;
using namespace bspline::operators;
using namespace bspline::integration;

template <typename T>
struct StubSolver final : bspline::interpolation::internal::ISolver<T> {
  T t;
  explicit StubSolver(size_t n) : bspline::interpolation::internal::ISolver<T>(n) {}
  T &M(size_t, size_t) override { return t; }
  T &b(size_t) override { return t; }
  void solve() override {}
  T &x(size_t) override { return t; }
};

// second stub: uses the base class's defaulted default constructor
template <typename T>
struct StubSolverD final : bspline::interpolation::internal::ISolver<T> {
  T t;
  explicit StubSolverD(size_t) {}
  T &M(size_t, size_t) override { return t; }
  T &b(size_t) override { return t; }
  void solve() override {}
  T &x(size_t) override { return t; }
};

// recording solver: the region evaluator models it natively (bsv/interp.py, class RecSolverModel): it records the
// linear system interpolate() assembles - which rows, which columns, which right-hand sides - and hands back opaque
// unknowns x(i) after solve(); out-of-range rows / columns and reading x() before solve() are reported.
template <typename T>
struct RecSolver final : bspline::interpolation::internal::ISolver<T> {
  T t;
  explicit RecSolver(size_t n) : bspline::interpolation::internal::ISolver<T>(n) {}
  T &M(size_t, size_t) override { return t; }
  T &b(size_t) override { return t; }
  void solve() override {}
  T &x(size_t) override { return t; }
};

template <typename T, size_t A>
Spline<T, A> mk() {
  std::vector<T> knots(A + 2);
  return generateBSplines<A>(knots).front();
}

// ---- operators applied to one spline ---------------------------------------
template <typename T, size_t A, typename O>
void apply_op(const O &op, const Spline<T, A> &a) {
  (void)(op * a);
  (void)transformSpline(op, a);
  LinearForm lf{O(op)};
  (void)lf(a);
  (void)lf.evaluate(a);
  BilinearForm bf1{O(op)};
  (void)bf1(a, a);
  BilinearForm bf2{O(op), O(op)};
  (void)bf2.evaluate(a, a);
}

template <typename T, size_t A>
void unary_ops() {
  Spline<T, A> a = mk<T, A>();
  const T c = static_cast<T>(3);
  (void)a(c);
  (void)a.front();
  (void)a.back();
  (void)a.isZero();
  (void)a.getSupport();
  (void)a.getCoefficients();
  (void)(a == a);
  (void)(a != a);
  (void)(a * c);
  (void)(c * a);
  (void)(a / c);
  (void)(-a);
  a *= c;
  a /= c;
  Spline<T, A> cp(a);
  Spline<T, A> mv(std::move(cp));
  cp = a;
  mv = std::move(cp);
  Spline<T, A> e{a.getSupport().getGrid()};
  Spline<T, A> f{a.getSupport(), a.getCoefficients()};
  // scalar forms on expiring objects: bind to the const& / const overloads on the reference tree; overloads for rvalues
  // (&&-qualified members, operator*(const T&, Spline&&)) added later are selected - and analysed - here
  {
    Spline<T, A> x1(a), x2(a), x3(a), x4(a);
    (void)(std::move(x1) * c);
    (void)(std::move(x2) / c);
    (void)(-std::move(x3));
    (void)(c * std::move(x4));
  }

  // primitive operators, n below / at / above the order
  apply_op(IdentityOperator{}, a);
  apply_op(X<0>{}, a);
  apply_op(X<1>{}, a);
  apply_op(X<2>{}, a);
  apply_op(X<3>{}, a);
  apply_op(Dx<0>{}, a);
  apply_op(Dx<1>{}, a);
  apply_op(Dx<2>{}, a);
  apply_op(Dx<A>{}, a);
  apply_op(Dx<A + 1>{}, a);
  apply_op(Dx<A + 2>{}, a);
  // scalar forms, scalar type T and int, both sides
  apply_op(c * X<1>{}, a);
  apply_op(X<1>{} * c, a);
  apply_op(X<1>{} / c, a);
  apply_op(2 * Dx<1>{}, a);
  apply_op(Dx<1>{} * 2, a);
  apply_op(Dx<1>{} / 2, a);
  apply_op(X<1>{} + c, a);
  apply_op(c + X<1>{}, a);
  apply_op(X<1>{} - c, a);
  apply_op(c - X<1>{}, a);
  apply_op(X<2>{} + 1, a);
  apply_op(1 + X<2>{}, a);
  apply_op(X<2>{} - 1, a);
  apply_op(1 - X<2>{}, a);
  apply_op(-X<1>{}, a);
  apply_op(ScalarMultiplication{c}, a);
  apply_op(ScalarMultiplication<T, Dx<1>>{c}, a);
  apply_op(ScalarMultiplication<int, X<1>>{2, X<1>{}}, a);
  // products, sums, differences with unequal output sizes, nested
  apply_op(X<1>{} * Dx<1>{}, a);
  apply_op(Dx<1>{} * X<1>{}, a);
  apply_op(Dx<1>{} * X<1>{} - X<1>{} * Dx<1>{}, a);
  apply_op(X<2>{} + Dx<1>{}, a);
  apply_op(Dx<1>{} + X<2>{}, a);
  apply_op(Dx<2>{} - X<1>{}, a);
  apply_op(X<1>{} - Dx<2>{}, a);
  apply_op((X<1>{} + Dx<1>{}) * (X<2>{} - IdentityOperator{}), a);
  apply_op(c * (X<2>{} * Dx<1>{} - Dx<3>{} + c) / c - 2 * X<1>{}, a);
  // spline factors of several orders
  apply_op(SplineOperator{mk<T, 0>()}, a);
  apply_op(SplineOperator{mk<T, 1>()}, a);
  apply_op(SplineOperator{mk<T, 3>()}, a);
  apply_op(c * (SplineOperator{mk<T, 1>()} * Dx<1>{}) + X<1>{}, a);
  apply_op(Dx<1>{} * SplineOperator{mk<T, 2>()}, a);

  LinearForm lf0{};
  (void)lf0(a);
  LinearForm<IdentityOperator> lf1;
  (void)lf1.evaluate(a);
  ScalarProduct sp{};
  (void)sp(a, a);
  BilinearForm bf0{};
  (void)bf0(a, a);

  // collections
  std::vector<Spline<T, A>> vs{a, a};
  std::vector<T> cs{c, c};
  (void)linearCombination(cs, vs);
  (void)linearCombination(cs.begin(), cs.end(), vs.begin(), vs.end());
  std::list<Spline<T, A>> ls{a, a};
  (void)cs.size();
}

// ---- the same operations with rvalue operands: on the reference tree they bind to the const& overloads; an overload
// taking Spline&& (added later) is selected - and thereby instantiated and analysed - here
template <typename T, size_t A, size_t B>
void rvalue_ops() {
  Spline<T, A> a = mk<T, A>();
  Spline<T, B> b = mk<T, B>();
  Spline<T, B> b1(b), b2(b), b3(b), b4(b), b5(b);
  Spline<T, A> a1(a), a2(a), a3(a);
  (void)(a * std::move(b1));
  (void)(a + std::move(b2));
  (void)(a - std::move(b3));
  (void)(std::move(a1) * b);
  (void)(std::move(a2) + b);
  (void)(std::move(a3) - b);
  if constexpr (B <= A) {
    a += std::move(b4);
    a -= std::move(b5);
  }
}

// ---- binary operations for an ordered pair of orders -----------------------
template <typename T, size_t A, size_t B>
void pair_ops() {
  Spline<T, A> a = mk<T, A>();
  Spline<T, B> b = mk<T, B>();
  (void)(a * b);
  (void)(a + b);
  (void)(a - b);
  (void)a.checkOverlap(b);
  BilinearForm bf{X<1>{}, Dx<1>{}};
  (void)bf(a, b);
  (void)bf.evaluate(a, b);
  ScalarProduct sp;
  (void)sp(a, b);
  BilinearForm bfs{SplineOperator{mk<T, 1>()}, Dx<2>{} + X<1>{}};
  (void)bfs(a, b);
  if constexpr (B <= A) {
    a += b;
    a -= b;
  }
  if constexpr (B < A) {
    a = b;
  }
  rvalue_ops<T, A, B>();
}

template <typename T, size_t A, size_t... Bs>
void pair_row(std::index_sequence<Bs...>) {
  (pair_ops<T, A, Bs>(), ...);
}

template <typename T, size_t... As>
void all_orders(std::index_sequence<As...>) {
  (unary_ops<T, As>(), ...);
  (pair_row<T, As>(std::index_sequence<As...>{}), ...);
}

template <typename T, size_t O>
void interp() {
  using namespace bspline::interpolation;
  auto sup = mk<T, 1>().getSupport();
  std::vector<T> y(sup.size());
  (void)interpolate<T, O, StubSolver<T>>(sup, y);
  std::array<Boundary<T>, O - 1> bo{};
  (void)interpolate<T, O, StubSolver<T>>(sup, y, bo);
  (void)interpolate<T, O, StubSolverD<T>>(sup, y, bo);
  (void)interpolate<T, O, RecSolver<T>>(sup, y, bo);
  (void)bspline::interpolation::internal::defaultBoundaries<T, O>();
}

template <typename T>
void support_api() {
  using namespace bspline::support;
  std::vector<T> v(4);
  Grid<T> g(v);
  Grid<T> g2(v.begin(), v.end());
  Grid<T> g3{static_cast<T>(0), static_cast<T>(1)};
  Grid<T> g4(std::make_shared<const std::vector<T>>(v));
  Grid<T> g5(g);
  g5 = g2;
  (void)(g == g2);
  (void)(g != g2);
  (void)g.size();
  (void)g.getData();
  (void)g.empty();
  (void)g[0];
  (void)g.at(0);
  (void)g.front();
  (void)g.back();
  (void)g.begin();
  (void)g.end();
  (void)g.findElement(v[0]);
  Support<T> s(g, 0, 2);
  Support<T> s2 = Support<T>::createEmpty(g);
  Support<T> s3 = Support<T>::createWholeGrid(g);
  Support<T> s4(s);
  Support<T> s5(std::move(s4));
  s4 = s;
  s5 = std::move(s4);
  (void)s.size();
  (void)s.empty();
  (void)s.containsIntervals();
  (void)s.relativeFromAbsolute(0);
  (void)s.intervalIndexFromAbsolute(0);
  (void)s.absoluteFromRelative(0);
  (void)s.numberOfIntervals();
  (void)s.getGrid();
  (void)s.getStartIndex();
  (void)s.getEndIndex();
  (void)s[0];
  (void)s.at(0);
  (void)s.front();
  (void)s.back();
  (void)s.begin();
  (void)s.end();
  (void)s.hasSameGrid(s2);
  (void)(s == s2);
  (void)(s != s2);
  (void)s.calcUnion(s3);
  (void)s.calcIntersection(s3);
  for (const auto &x : s) (void)x;
  for (const auto &x : g) (void)x;
}

template <typename T>
void generator_api() {
  std::vector<T> knots(8);
  BSplineGenerator<T> gen(knots);
  BSplineGenerator<T> gen2(knots, gen.getGrid());
  (void)gen.template generateBSplines<0>();
  (void)gen.template generateBSplines<1>();
  (void)gen2.template generateBSplines<VT_MAXORDER>();
  (void)generateBSplines<2>(knots);
  BSplineGenerator<T> gen3(gen);
  gen3 = gen2;
}

template <typename T>
void drive() {
  support_api<T>();
  generator_api<T>();
  all_orders<T>(std::make_index_sequence<VT_MAXORDER + 1>{});
  interp<T, 1>();
  interp<T, 2>();
  interp<T, 3>();
  interp<T, 4>();
}
}  // namespace vt
#endif
