// Case driver for the region evaluator with the scalar archetype: see cases.h.
#include "arch.h"
#define VT_CASE_T vt::Arch
#define VT_CASE_NO_QUAD
#include "cases.h"
