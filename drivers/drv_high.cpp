// high-order driver: a reduced slice of the public API for spline orders above the grid of drv_core.h (which stops at
// VT_MAXORDER = 3), so that order-dependent code - loop bounds and array sizes derived from the order, the generator's
// recursion depth, factorial / binomial tables, compile-time branches on the order - is analysed where the order is
// large, too.  Never compiled to an executable, never run.
#include "drv_core.h"

namespace vt {
template <typename T, size_t A>
void high_unary() {
  Spline<T, A> a = mk<T, A>();
  const T c = static_cast<T>(3);
  (void)a(c);
  (void)a.front();
  (void)a.back();
  (void)a.isZero();
  (void)a.getSupport();
  (void)a.getCoefficients();
  (void)(a == a);
  (void)(a != a);
  (void)(a * c);
  (void)(c * a);
  (void)(a / c);
  (void)(-a);
  a *= c;
  a /= c;
  Spline<T, A> cp(a);
  Spline<T, A> mv(std::move(cp));
  cp = a;
  mv = std::move(cp);
  Spline<T, A> e{a.getSupport().getGrid()};
  Spline<T, A> f{a.getSupport(), a.getCoefficients()};
  // scalar forms on expiring objects: bind to the const& / const overloads on the reference tree; overloads for rvalues
  // (&&-qualified members, operator*(const T&, Spline&&)) added later are selected - and analysed - here
  {
    Spline<T, A> x1(a), x2(a), x3(a), x4(a);
    (void)(std::move(x1) * c);
    (void)(std::move(x2) / c);
    (void)(-std::move(x3));
    (void)(c * std::move(x4));
  }
  apply_op(IdentityOperator{}, a);
  apply_op(X<1>{}, a);
  apply_op(X<2>{}, a);
  apply_op(X<3>{}, a);
  apply_op(Dx<1>{}, a);
  apply_op(Dx<2>{}, a);
  apply_op(Dx<A - 1>{}, a);
  apply_op(Dx<A>{}, a);
  apply_op(Dx<A + 1>{}, a);
  apply_op(c * X<1>{}, a);
  apply_op(Dx<1>{} / 2, a);
  apply_op(-X<1>{}, a);
  apply_op(X<1>{} * Dx<1>{}, a);
  apply_op(Dx<1>{} * X<1>{}, a);
  apply_op(Dx<1>{} * X<1>{} - X<1>{} * Dx<1>{}, a);
  apply_op(X<2>{} + Dx<1>{}, a);
  apply_op(SplineOperator{mk<T, 1>()}, a);
  LinearForm lf0{};
  (void)lf0(a);
  ScalarProduct sp{};
  (void)sp(a, a);
  std::vector<Spline<T, A>> vs{a, a};
  std::vector<T> cs{c, c};
  (void)linearCombination(cs, vs);
  (void)linearCombination(cs.begin(), cs.end(), vs.begin(), vs.end());
}

template <typename T, size_t A, size_t B>
void high_pair() {
  Spline<T, A> a = mk<T, A>();
  Spline<T, B> b = mk<T, B>();
  (void)(a * b);
  (void)(a + b);
  (void)(a - b);
  (void)a.checkOverlap(b);
  BilinearForm bf{X<1>{}, Dx<1>{}};
  (void)bf(a, b);
  (void)bf.evaluate(a, b);
  ScalarProduct sp;
  (void)sp(a, b);
  if constexpr (B <= A) {
    a += b;
    a -= b;
  }
  if constexpr (B < A) {
    a = b;
  }
  rvalue_ops<T, A, B>();
}

template <typename T>
void drive_high() {
  high_unary<T, 4>();
  high_unary<T, 5>();
  high_unary<T, 6>();
  high_pair<T, 4, 4>();
  high_pair<T, 5, 5>();
  high_pair<T, 6, 6>();
  high_pair<T, 6, 2>();
  high_pair<T, 2, 6>();
  high_pair<T, 5, 4>();
  high_pair<T, 4, 5>();
  high_pair<T, 6, 0>();
  std::vector<T> knots(10);
  BSplineGenerator<T> gen(knots);
  BSplineGenerator<T> gen2(knots, gen.getGrid());
  (void)gen.template generateBSplines<4>();
  (void)gen2.template generateBSplines<5>();
  (void)gen.template generateBSplines<6>();
  (void)generateBSplines<5>(knots);
  interp<T, 5>();
  interp<T, 6>();
}
}  // namespace vt
// results reach order 12; the region evaluator observes them through their accessors
template class bspline::Spline<double, 7>;
template class bspline::Spline<double, 8>;
template class bspline::Spline<double, 9>;
template class bspline::Spline<double, 10>;
template class bspline::Spline<double, 11>;
template class bspline::Spline<double, 12>;
template void vt::drive_high<double>();
