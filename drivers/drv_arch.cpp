// Archetype driver: the whole core API with the minimal scalar type vt::Arch.
#include "arch.h"
#include "drv_core.h"
#include "drv_lvalue.h"
template void vt::drive<vt::Arch>();
template void vt::drive_lvalue<vt::Arch>();
