// Archetype driver: the whole core API with the minimal scalar type vt::Arch.
#include "arch.h"
#include "drv_core.h"
template void vt::drive<vt::Arch>();
