// Archetype driver: the whole core API with the minimal scalar type vt::Arch.
#include "arch.h"
#include "drv_core.h"
#include "drv_lvalue.h"
// results of the driver grid reach order 7; the region evaluator observes them through their accessors
template class bspline::Spline<vt::Arch, 4>;
template class bspline::Spline<vt::Arch, 5>;
template class bspline::Spline<vt::Arch, 6>;
template class bspline::Spline<vt::Arch, 7>;
template void vt::drive<vt::Arch>();
template void vt::drive_lvalue<vt::Arch>();
