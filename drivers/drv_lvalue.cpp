// lvalue driver: double and the scalar archetype (see drv_lvalue.h).
#include "arch.h"
#include "drv_lvalue.h"
template void vt::drive_lvalue<double>();
template void vt::drive_lvalue<vt::Arch>();
