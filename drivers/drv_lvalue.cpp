// lvalue driver for double (see drv_lvalue.h); the archetype instantiation lives in drv_arch.cpp, where a compile
// error is C19's finding.
#include "drv_lvalue.h"
template void vt::drive_lvalue<double>();
