// iterator-category driver for the scalar archetype (see drv_iter.h): part of C19's compile witness.
#include "arch.h"
#include "drv_iter.h"
template void vt::iterator_api<vt::Arch>();
