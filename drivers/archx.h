// vt::ArchX -- scalar archetype whose arithmetic operators return EXPRESSION PROXIES (like boost::multiprecision
// number<..., et_on>, GMP's mpq_class, Eigen scalars): the proxy refers to its operands and is converted to the scalar
// only when it is assigned to / passed as one.
#ifndef VT_ARCHX_H
#define VT_ARCHX_H
#include <cstddef>
#include <type_traits>
namespace vt {
class ArchX;
class ExprX {
  const void *_l, *_r;
  friend class ArchX;
 public:
  ExprX(const void *l, const void *r) : _l(l), _r(r) {}
};
class ArchX {
  long _v = 0;
 public:
  ArchX() = default;
  ArchX(const ArchX &) = default;
  ArchX &operator=(const ArchX &) = default;
  ArchX(const ExprX &) {}                       // evaluation of an expression
  ArchX &operator=(const ExprX &) { return *this; }
  template <typename I, std::enable_if_t<std::is_integral_v<I> && !std::is_same_v<I, bool>, int> = 0>
  explicit ArchX(I) {}
  template <typename F, std::enable_if_t<std::is_floating_point_v<F>, int> = 0>
  ArchX(F) = delete;
  ArchX(bool) = delete;
  ArchX &operator+=(const ArchX &) { return *this; }
  ArchX &operator-=(const ArchX &) { return *this; }
  ArchX &operator*=(const ArchX &) { return *this; }
  ArchX &operator/=(const ArchX &) { return *this; }
  ArchX &operator+=(const ExprX &) { return *this; }
  ArchX &operator-=(const ExprX &) { return *this; }
  ArchX &operator*=(const ExprX &) { return *this; }
  ArchX &operator/=(const ExprX &) { return *this; }
  ExprX operator-() const { return ExprX(this, nullptr); }
};
#define VT_BIN(op)                                                                           \
  inline ExprX operator op(const ArchX &a, const ArchX &b) { return ExprX(&a, &b); }         \
  inline ExprX operator op(const ExprX &a, const ArchX &b) { return ExprX(&a, &b); }         \
  inline ExprX operator op(const ArchX &a, const ExprX &b) { return ExprX(&a, &b); }         \
  inline ExprX operator op(const ExprX &a, const ExprX &b) { return ExprX(&a, &b); }
VT_BIN(+) VT_BIN(-) VT_BIN(*) VT_BIN(/)
#undef VT_BIN
inline ExprX operator-(const ExprX &a) { return ExprX(&a, nullptr); }
#define VT_CMP(op)                                                            \
  inline bool operator op(const ArchX &, const ArchX &) { return false; }     \
  inline bool operator op(const ExprX &, const ArchX &) { return false; }     \
  inline bool operator op(const ArchX &, const ExprX &) { return false; }     \
  inline bool operator op(const ExprX &, const ExprX &) { return false; }
VT_CMP(<) VT_CMP(<=) VT_CMP(>) VT_CMP(>=) VT_CMP(==) VT_CMP(!=)
#undef VT_CMP
}  // namespace vt
#endif
