// Negative controls for R-ARCH: every line starting with "void ctl_" uses one
// operation that the documented scalar requirements do NOT include.  Each must
// be rejected by the compiler (one control per line; the checker maps each
// diagnostic to its line).  "void ok_" lines must compile.
#include "arch.h"
#include <cmath>
#include <complex>
#include <limits>
#include <numeric>
#include <sstream>
#include <vector>
using vt::Arch;
void take(Arch);
void ok_allowed() { Arch a, b(a); a = b; Arch c = static_cast<Arch>(2); Arch d = static_cast<Arch>(size_t(3)); a = a + b - c * d / a; a += b; a -= b; a *= b; a /= b; a = -a; bool r = (a < b) || (a <= b) || (a > b) || (a >= b) || (a == b) || (a != b); (void)r; std::vector<Arch> v(3); v.push_back(a); }
void ctl_implicit_from_int() { Arch a = 1; (void)a; }
void ctl_implicit_from_double() { Arch a = 0.5; (void)a; }
void ctl_static_cast_double() { Arch a = static_cast<Arch>(0.5); (void)a; }
void ctl_static_cast_float() { Arch a = static_cast<Arch>(0.5f); (void)a; }
void ctl_direct_init_double() { Arch a(2.0); (void)a; }
void ctl_assign_int() { Arch a; a = 1; }
void ctl_pass_int() { take(1); }
void ctl_mul_int() { Arch a; (void)(a * 2); }
void ctl_int_mul() { Arch a; (void)(2 * a); }
void ctl_mul_double() { Arch a; (void)(a * 0.5); }
void ctl_add_int() { Arch a; (void)(a + 1); }
void ctl_div_int() { Arch a; (void)(a / 2); }
void ctl_compound_int() { Arch a; a *= 2; }
void ctl_compound_add_int() { Arch a; a += 1; }
void ctl_eq_int() { Arch a; (void)(a == 0); }
void ctl_ne_int() { Arch a; (void)(a != 0); }
void ctl_lt_int() { Arch a; (void)(a < 0); }
void ctl_gt_double() { Arch a; (void)(a > 0.0); }
void ctl_to_bool() { Arch a; if (a) {} }
void ctl_not() { Arch a; (void)(!a); }
void ctl_to_double() { Arch a; double d = a; (void)d; }
void ctl_static_cast_to_double() { Arch a; (void)static_cast<double>(a); }
void ctl_to_size_t() { Arch a; size_t n = static_cast<size_t>(a); (void)n; }
void ctl_abs() { Arch a; (void)std::abs(a); }
void ctl_fabs() { Arch a; (void)std::fabs(a); }
void ctl_sqrt() { Arch a; (void)std::sqrt(a); }
void ctl_pow() { Arch a; (void)std::pow(a, 2); }
void ctl_isnan() { Arch a; (void)std::isnan(a); }
void ctl_stream_out() { Arch a; std::stringstream s; s << a; }
void ctl_stream_in() { Arch a; std::stringstream s; s >> a; }
void ctl_increment() { Arch a; ++a; }
void ctl_post_increment() { Arch a; a++; }
void ctl_modulo() { Arch a; (void)(a % a); }
void ctl_unary_plus() { Arch a; (void)(+a); }
void ctl_vector_fill_int() { std::vector<Arch> v(3, 0); }
void ctl_accumulate_int() { std::vector<Arch> v(3); (void)std::accumulate(v.begin(), v.end(), 0); }
void ctl_ternary_int() { Arch a; Arch b = true ? a : 0; (void)b; }
void ctl_complex_abs() { std::complex<Arch> z; (void)std::abs(z); }
void ctl_brace_double() { Arch a{0.5}; (void)a; }
void ctl_from_bool() { Arch a(true); (void)a; }
