// Positive controls: deliberately wrong siblings of library code.  Parsed in the
// same extraction pass as the library; every rule must flag its controls on every
// run (else the check exits 2) and controls are never counted as violations.
#include <bspline/Core.h>
#include <bspline/interpolation/interpolation.h>
namespace vt_control {}
