// Positive controls: deliberately wrong siblings of library code.  Parsed by the same
// extractor as the library; in "control mode" this file is treated as library code and every
// pattern rule must flag its control on every run (else the check exits 2: a rule that
// matches nothing would pass vacuously forever).  Controls are never counted as violations.
#include <bspline/Core.h>
#include <bspline/interpolation/interpolation.h>

#include <cstdlib>
#include <memory>
#include <stdexcept>
#include <vector>

namespace vt_control {
using namespace bspline;
using namespace bspline::operators;
using D = double;

// R-GRD.a: combines two splines without comparing their grids
template <size_t A, size_t B>
size_t ctl_unguarded(const Spline<D, A> &a, const Spline<D, B> &b) {
  return a.getCoefficients().size() + b.getCoefficients().size();
}
// R-GRD.a: guard only on one path
template <size_t A, size_t B>
size_t ctl_guard_one_path(const Spline<D, A> &a, const Spline<D, B> &b) {
  if (a.getSupport().empty()) return 0;
  if (!a.getSupport().hasSameGrid(b.getSupport())) throw BSplineException(ErrorCode::DIFFERING_GRIDS);
  return 1;
}
// R-GRD.c: wrong error code
template <size_t A, size_t B>
size_t ctl_wrong_code(const Spline<D, A> &a, const Spline<D, B> &b) {
  if (!a.getSupport().hasSameGrid(b.getSupport())) throw BSplineException(ErrorCode::UNDETERMINED);
  return 1;
}
// R-DIV: reciprocal formed in the scalar's own type
template <typename S, typename O>
auto ctl_div(O &&o, const S &s) {
  return ScalarMultiplication(static_cast<S>(1) / s, std::forward<O>(o));
}
template <typename S, typename O>
auto ctl_neg(O &&o, const S &s) {
  return ScalarMultiplication(-s, std::forward<O>(o));
}
// R-OPT: unchecked optional dereference
inline size_t ctl_opt(const support::Support<D> &s) {
  const auto r = s.relativeFromAbsolute(1);
  return *r;
}
inline size_t ctl_opt_wrong_polarity(const support::Support<D> &s) {
  const auto r = s.relativeFromAbsolute(1);
  if (!r) return *r;
  return 0;
}
// R-THR: foreign exception type
inline void ctl_throw() { throw std::runtime_error("not the library's exception"); }
// R-EX: erase / dereference of the container's own end()
inline void ctl_erase_end(std::vector<int> &v) { v.erase(v.end()); }
inline int ctl_deref_end(std::vector<int> &v) { return *v.end(); }
// R-OWN.mutable / field / iface / commit
struct CtlCache {
  mutable size_t hits = 0;
  size_t value = 0;
  size_t get() const { return ++hits, value; }
};
struct CtlHandle {
  const support::Grid<D> &grid;
  D *raw;
  std::shared_ptr<std::vector<D>> shared;
  std::vector<D>::const_iterator it;
};
class CtlIface {
  std::vector<D> _v;
  size_t _n = 0;

 public:
  void poke() { _n++; }
  std::vector<D> &storage() { return _v; }
  D *data() { return _v.data(); }
  void commitEarly(const support::Support<D> &s) {
    _n = 1;
    _n = s.absoluteFromRelative(7);  // may throw after the write above
  }
};
// R-OWN.cast
inline void ctl_constcast(const std::vector<D> &v) { const_cast<std::vector<D> &>(v).clear(); }
// R-EFF.static / closure
inline size_t ctl_counter() {
  static size_t calls = 0;
  return ++calls;
}
inline int ctl_rand() { return std::rand(); }
inline const char *ctl_env() { return std::getenv("HOME"); }
// R-LIFE: reference into a temporary
inline size_t ctl_dangling(const Spline<D, 1> &a) {
  const auto &sup = (a * 2.0).getSupport();
  return sup.size();
}

// R-LIFE.inval: reference into a vector that is grown while the reference is still used
inline std::vector<D> ctl_invalidated(const support::Support<D> &s) {
  std::vector<D> ret{s.front()};
  const D &last = ret.back();
  for (size_t i = 0; i < 10; i++) ret.push_back(last);
  return ret;
}
// R-EFF.frozen: const static initialised from an argument
inline size_t ctl_frozen(const support::Support<D> &s) {
  static const size_t cached = s.size();
  return cached;
}

// R-LIFE.ret: reference to a local / to a temporary handed back through an identity helper
template <typename V>
const V &ctl_identity(const V &v) {
  return v;
}
inline const support::Grid<D> &ctl_ret_local(const Spline<D, 1> &a) {
  support::Grid<D> g = a.getSupport().getGrid();
  return g;
}
inline const support::Support<D> &ctl_ret_temporary(const Spline<D, 1> &a) {
  return ctl_identity((a * 2.0).getSupport());
}
// R-LIFE.seq: moved into a by-value parameter while a sibling argument reads the same object
inline size_t ctl_take(support::Support<D> s, size_t n) { return s.size() + n; }
inline size_t ctl_moved_and_read(support::Support<D> s) { return ctl_take(std::move(s), s.size()); }
inline size_t ok_moved_into_rvalue_ref_param(std::vector<D> v) {
  std::vector<std::vector<D>> all;
  all.emplace_back(std::move(v));
  return all.size();
}
// R-OWN.fwdmove: std::move of a forwarding reference bound to the caller's lvalue
template <typename P>
inline std::vector<D> ctl_fwd_move(P &&v) { return std::vector<D>(std::move(v)); }
template <typename P>
inline std::vector<D> ok_forwarded(P &&v) { return std::vector<D>(std::forward<P>(v)); }
// R-OWN.borrow: shared_ptr that does not own its pointee (aliasing constructor / address of a parameter)
struct CtlBorrow {
  std::shared_ptr<const Spline<D, 1>> _s;
  explicit CtlBorrow(const Spline<D, 1> &s) : _s(std::shared_ptr<const Spline<D, 1>>{}, &s) {}
};
struct CtlBorrow2 {
  std::shared_ptr<const Spline<D, 1>> _s;
  explicit CtlBorrow2(const Spline<D, 1> &s) : _s(&s, [](const Spline<D, 1> *) {}) {}
};
struct OkOwning {
  std::shared_ptr<const Spline<D, 1>> _s;
  explicit OkOwning(const Spline<D, 1> &s) : _s(std::make_shared<const Spline<D, 1>>(s)) {}
};
// R-API.param: (synthetic baseline says the parameter was a const reference)
template <typename F>
inline D ctl_api_param(F &&f, const Spline<D, 1> &a) { return f(a.front()); }
// R-API.ret: (synthetic baseline says this returned by value)
inline const support::Grid<D> &ctl_api_ref(const Spline<D, 1> &a) { return a.getSupport().getGrid(); }
// R-GRD.fwd: compound operator that skips its member operator on one path
struct CtlCompound : public operators::Operator {
  operators::SplineOperator<D, 1> _o1;
  D _f;
  CtlCompound(const Spline<D, 1> &s, D f) : _o1{s}, _f{f} {}
  template <size_t order>
  static constexpr size_t outputOrder(size_t inputOrder) { return decltype(_o1)::outputOrder(inputOrder); }
  template <size_t size>
  auto transform(const std::array<D, size> &input, const support::Grid<D> &grid, size_t intervalIndex) const {
    if (_f == static_cast<D>(0)) return std::array<D, size + 1>{};
    return _o1.transform(input, grid, intervalIndex);
  }
};

inline void instantiate() {
  {
    Spline<D, 1> a0{support::Grid<D>{0.0, 1.0}};
    (void)ctl_ret_local(a0);
    (void)ctl_ret_temporary(a0);
    (void)ctl_api_ref(a0);
    CtlBorrow cb{a0};
    CtlBorrow2 cb2{a0};
    OkOwning oo{a0};
    (void)cb; (void)cb2; (void)oo;
    (void)ctl_api_param([](const D &x) { return x; }, a0);
    (void)ctl_moved_and_read(a0.getSupport());
    (void)ok_moved_into_rvalue_ref_param({1.0});
    std::vector<D> named{1.0, 2.0};
    (void)ctl_fwd_move(named);
    (void)ctl_fwd_move(std::vector<D>{1.0});   // bound to an rvalue: moving is what the caller asked for
    (void)ok_forwarded(named);
    CtlCompound cc{a0, 1.0};
    (void)cc.transform(std::array<D, 2>{}, a0.getSupport().getGrid(), 0);
  }
  (void)ctl_invalidated(Spline<D, 1>{support::Grid<D>{0.0, 1.0}}.getSupport());
  (void)ctl_frozen(Spline<D, 1>{support::Grid<D>{0.0, 1.0}}.getSupport());
  Spline<D, 1> a{support::Grid<D>{0.0, 1.0}};
  Spline<D, 2> b{a.getSupport().getGrid()};
  (void)ctl_unguarded(a, b);
  (void)ctl_guard_one_path(a, b);
  (void)ctl_wrong_code(a, b);
  (void)ctl_div(X<1>{}, 2);
  (void)ctl_neg(X<1>{}, 2u);
  (void)ctl_opt(a.getSupport());
  (void)ctl_opt_wrong_polarity(a.getSupport());
  std::vector<int> v;
  ctl_erase_end(v);
  (void)ctl_deref_end(v);
  CtlCache c;
  (void)c.get();
  CtlIface i;
  i.poke();
  (void)i.storage();
  (void)i.data();
  i.commitEarly(a.getSupport());
  std::vector<D> w;
  ctl_constcast(w);
  (void)ctl_counter();
  (void)ctl_rand();
  (void)ctl_env();
  (void)ctl_dangling(a);
  D x = 0;
  std::vector<D> vv;
  CtlHandle h{a.getSupport().getGrid(), &x, nullptr, vv.begin()};
  (void)h;
  if (false) ctl_throw();
}
}  // namespace vt_control
