// Instantiation driver, part 2: operator expressions / forms / wrappers built from NAMED (lvalue) operands.
// Kept in a unit of its own: if one of these uses stops compiling, that is reported as a break of the clause
// "expression objects can be built from lvalues and own their operands" and does not take the other checks down.
#ifndef VT_DRV_LVALUE_H
#define VT_DRV_LVALUE_H
#include "drv_core.h"

namespace vt {
// ---- construction from lvalues: deduction guides / forwarding must still store VALUES -------------
// (a guide or forwarding overload that deduces a reference type would show up as a reference member of
//  the instantiated class, which rule R-OWN.field reports)
template <typename T, size_t A>
void lvalue_api() {
  Spline<T, A> a = mk<T, A>();
  const Spline<T, A> ca = a;
  const T c = static_cast<T>(3);
  T m = static_cast<T>(2);
  int k = 2;
  const int ck = 3;
  auto op = c * X<1>{};            // named operators, const and non-const
  const auto cop = Dx<1>{} / c;
  auto s1 = X<1>{} * m;
  auto s2 = m * X<1>{};
  auto s3 = X<1>{} / m;
  auto s4 = X<1>{} + m;
  auto s5 = m - X<1>{};
  auto s6 = X<1>{} / k;
  auto s7 = ck * X<1>{};
  auto s8 = X<1>{} - ck;
  auto s9 = X<1>{} / c;
  auto s10 = X<1>{} * c;
  BilinearForm bf1{op};
  BilinearForm bf2{cop};
  BilinearForm bf3{op, cop};
  BilinearForm bf4{cop, op};
  LinearForm lf1{op};
  LinearForm lf2{cop};
  SplineOperator so1{a};
  SplineOperator so2{ca};
  ScalarMultiplication sm1{m};
  ScalarMultiplication sm2{c};
  ScalarMultiplication sm3{m, X<1>{}};
  ScalarMultiplication sm4{c, Dx<1>{}};
  (void)bf1(a, ca);
  (void)bf2(a, a);
  (void)bf3.evaluate(a, a);
  (void)bf4(ca, a);
  (void)lf1(a);
  (void)lf2.evaluate(ca);
  (void)(op * a);
  (void)(cop * ca);
  (void)transformSpline(op, a);
  (void)transformSpline(cop, ca);
  (void)(so1 * a);
  (void)(so2 * ca);
  (void)(sm1 * a);
  (void)(sm2 * a);
  (void)(sm3 * a);
  (void)(sm4 * a);
  (void)(s1 * a); (void)(s2 * a); (void)(s3 * a); (void)(s4 * a); (void)(s5 * a);
  (void)(s6 * a); (void)(s7 * a); (void)(s8 * a); (void)(s9 * a); (void)(s10 * a);
  // generator / grid accessors bound to references (their results must be usable after the call)
  std::vector<T> knots(A + 3);
  const auto g = BSplineGenerator<T>(knots).getGrid();
  (void)g.size();
  Spline<T, A> sg{a.getSupport().getGrid()};
  (void)sg;
}


template <typename T, size_t... As>
void all_lvalue(std::index_sequence<As...>) {
  (lvalue_api<T, As>(), ...);
}
template <typename T>
void drive_lvalue() {
  all_lvalue<T>(std::make_index_sequence<VT_MAXORDER + 1>{});
}
}  // namespace vt
#endif
