// Positive control for R-ARCH.proxy: an arithmetic result kept in a deduced type has the proxy type.
#include "archx.h"
namespace vt_control {
inline vt::ArchX ctl_auto_proxy(const vt::ArchX &a, const vt::ArchX &b) {
  const auto kept = (a + b) / static_cast<vt::ArchX>(2);   // vt::ExprX, refers to the temporary ArchX(2)
  const vt::ArchX named = (a + b) / static_cast<vt::ArchX>(2);
  return named + kept;
}
inline void instantiate_archx() { (void)ctl_auto_proxy(vt::ArchX(), vt::ArchX()); }
}  // namespace vt_control
