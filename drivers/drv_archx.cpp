// Proxy-archetype driver: the whole core API with vt::ArchX, a scalar whose arithmetic operators return expression
// proxies (archx.h). Rule R-ARCH.proxy: no variable, member, parameter or return value of library code has the proxy type.
#include "archx.h"
#include "drv_core.h"
#include "drv_lvalue.h"
template void vt::drive<vt::ArchX>();
template void vt::drive_lvalue<vt::ArchX>();
