// Case driver for the region evaluator: see cases.h.
#include "cases.h"
