// Named operator / form cases for the region evaluator (R-REG): each function spells one
// expression of the operator algebra through the PUBLIC API only.  The checker evaluates the
// extracted bodies abstractly and compares the dependence structure of the result with the
// specification of the expression the function name stands for (table in bsv/r_reg_ops.py).
// Never compiled to an executable, never run.
#ifndef VT_CASES_H
#define VT_CASES_H
#include <bspline/Core.h>
// The scalar type of the cases: double (drv_cases.cpp) or the archetype vt::Arch (drv_cases_arch.cpp; no numerical
// quadrature there - boost's Gauss rules need a built-in or multiprecision type).
#ifndef VT_CASE_T
#define VT_CASE_T double
#endif
#ifndef VT_CASE_NO_QUAD
#include <bspline/integration/numerical.h>
#endif

// every member of the value classes is needed by the evaluator (constructors, observers)
template class bspline::support::Grid<VT_CASE_T>;
template class bspline::support::Support<VT_CASE_T>;
template class bspline::Spline<VT_CASE_T, 0>;
template class bspline::Spline<VT_CASE_T, 1>;
template class bspline::Spline<VT_CASE_T, 2>;
template class bspline::Spline<VT_CASE_T, 3>;
template class bspline::Spline<VT_CASE_T, 4>;
template class bspline::Spline<VT_CASE_T, 5>;
template class bspline::Spline<VT_CASE_T, 6>;
template class bspline::Spline<VT_CASE_T, 7>;
#ifdef VT_CASE_HIGH
template class bspline::Spline<VT_CASE_T, 8>;
template class bspline::Spline<VT_CASE_T, 9>;
template class bspline::Spline<VT_CASE_T, 10>;
template class bspline::Spline<VT_CASE_T, 11>;
template class bspline::Spline<VT_CASE_T, 12>;
#endif

namespace vt_case {
using namespace bspline;
using namespace bspline::operators;
using namespace bspline::integration;
using D = VT_CASE_T;
template <size_t A> using S = Spline<D, A>;

// ---- primitive operators -------------------------------------------------------------------
template <size_t A> auto op_id(const S<A> &a) { return IdentityOperator{} * a; }
template <size_t A> auto op_x0(const S<A> &a) { return X<0>{} * a; }
template <size_t A> auto op_x1(const S<A> &a) { return X<1>{} * a; }
template <size_t A> auto op_x2(const S<A> &a) { return X<2>{} * a; }
template <size_t A> auto op_x3(const S<A> &a) { return X<3>{} * a; }
template <size_t A> auto op_d0(const S<A> &a) { return Dx<0>{} * a; }
template <size_t A> auto op_d1(const S<A> &a) { return Dx<1>{} * a; }
template <size_t A> auto op_d2(const S<A> &a) { return Dx<2>{} * a; }
template <size_t A> auto op_d3(const S<A> &a) { return Dx<3>{} * a; }
template <size_t A> auto op_d4(const S<A> &a) { return transformSpline(Dx<4>{}, a); }
// ---- compound ----------------------------------------------------------------------------------
template <size_t A> auto op_x1d1(const S<A> &a) { return (X<1>{} * Dx<1>{}) * a; }
template <size_t A> auto op_d1x1(const S<A> &a) { return (Dx<1>{} * X<1>{}) * a; }
template <size_t A> auto op_comm(const S<A> &a) { return (Dx<1>{} * X<1>{} - X<1>{} * Dx<1>{}) * a; }
template <size_t A> auto op_sum(const S<A> &a) { return (X<2>{} + Dx<1>{}) * a; }
template <size_t A> auto op_sum2(const S<A> &a) { return (Dx<1>{} + X<2>{}) * a; }
template <size_t A> auto op_dif(const S<A> &a) { return (Dx<2>{} - X<1>{}) * a; }
template <size_t A> auto op_dif2(const S<A> &a) { return (X<1>{} - Dx<2>{}) * a; }
template <size_t A> auto op_prodsum(const S<A> &a) { return ((X<1>{} + Dx<1>{}) * (X<2>{} - IdentityOperator{})) * a; }
// ---- scalars ---------------------------------------------------------------------------------------
template <size_t A> auto op_cx(const S<A> &a, const D &c) { return (c * X<1>{}) * a; }
template <size_t A> auto op_xc(const S<A> &a, const D &c) { return (X<1>{} * c) * a; }
template <size_t A> auto op_xdivc(const S<A> &a, const D &c) { return (X<1>{} / c) * a; }
template <size_t A> auto op_xplusc(const S<A> &a, const D &c) { return (X<1>{} + c) * a; }
template <size_t A> auto op_cplusx(const S<A> &a, const D &c) { return (c + X<1>{}) * a; }
template <size_t A> auto op_xminusc(const S<A> &a, const D &c) { return (X<1>{} - c) * a; }
template <size_t A> auto op_cminusx(const S<A> &a, const D &c) { return (c - X<1>{}) * a; }
template <size_t A> auto op_neg(const S<A> &a) { return (-X<1>{}) * a; }
template <size_t A> auto op_int2d(const S<A> &a) { return (2 * Dx<1>{}) * a; }
template <size_t A> auto op_ddiv2(const S<A> &a) { return (Dx<1>{} / 2) * a; }
template <size_t A> auto op_dplus1(const S<A> &a) { return (Dx<1>{} + 1) * a; }
template <size_t A> auto op_nested(const S<A> &a, const D &c) {
  return (c * (X<2>{} * Dx<1>{} - Dx<3>{} + c) / c - 2 * X<1>{}) * a;
}
// ---- quotients inside larger expressions (the quotient node is negated, divided again, moved into a compound) ----
template <size_t A> auto op_negdiv(const S<A> &a, const D &c) { return (-(X<1>{} / c)) * a; }
template <size_t A> auto op_negmul(const S<A> &a, const D &c) { return (-(c * X<1>{})) * a; }
template <size_t A> auto op_divdiv(const S<A> &a, const D &c) { return ((X<1>{} / c) / c) * a; }
template <size_t A> auto op_divsum(const S<A> &a, const D &c) { return ((X<1>{} / c) + Dx<1>{}) * a; }
template <size_t A> auto op_ddivprod(const S<A> &a, const D &c) { return (Dx<1>{} * (X<2>{} / c)) * a; }
template <size_t A> auto op_intdiv(const S<A> &a) { return ((X<1>{} / 4) - Dx<1>{}) * a; }
// ---- spline factor -----------------------------------------------------------------------------------
template <size_t A> auto op_fac(const S<A> &a, const S<1> &v) { return SplineOperator{v} * a; }
template <size_t A> auto op_fac0(const S<A> &a, const S<0> &v) { return SplineOperator{v} * a; }
template <size_t A> auto op_facd(const S<A> &a, const S<1> &v) { return (SplineOperator{v} * Dx<1>{}) * a; }
template <size_t A> auto op_dfac(const S<A> &a, const S<1> &v) { return (Dx<1>{} * SplineOperator{v}) * a; }
template <size_t A> auto op_facsum(const S<A> &a, const S<1> &v, const D &c) {
  return (c * SplineOperator{v} + X<1>{}) * a;
}
// ---- forms -----------------------------------------------------------------------------------------------
template <size_t A, size_t B> D bf_id(const S<A> &a, const S<B> &b) { return ScalarProduct{}(a, b); }
template <size_t A, size_t B> D bf_x1d1(const S<A> &a, const S<B> &b) { return BilinearForm{X<1>{}, Dx<1>{}}(a, b); }
template <size_t A, size_t B> D bf_d1(const S<A> &a, const S<B> &b) { return BilinearForm{Dx<1>{}}.evaluate(a, b); }
template <size_t A, size_t B> D bf_x2(const S<A> &a, const S<B> &b) { return BilinearForm{X<2>{}, IdentityOperator{}}(a, b); }
template <size_t A, size_t B> D bf_fac(const S<A> &a, const S<B> &b, const S<1> &v) {
  return BilinearForm{Dx<1>{}, SplineOperator{v} * Dx<1>{}}(a, b);
}
// two operators of the same C++ type but with different state
template <size_t A, size_t B> D bf_aff(const S<A> &a, const S<B> &b, const D &c, const D &d) {
  return BilinearForm{Dx<1>{} + c, Dx<1>{} + d}(a, b);
}
template <size_t A> D lf_id(const S<A> &a) { return LinearForm{}(a); }
template <size_t A> D lf_x1(const S<A> &a) { return LinearForm{X<1>{}}(a); }
template <size_t A> D lf_x1d1(const S<A> &a) { return LinearForm{X<1>{} * Dx<1>{}}.evaluate(a); }
template <size_t A> D lf_d1(const S<A> &a) { return LinearForm{Dx<1>{}}(a); }
template <size_t A> D lf_fac(const S<A> &a, const S<1> &v) { return LinearForm{SplineOperator{v}}(a); }
#ifndef VT_CASE_NO_QUAD
template <size_t A, size_t B> D quad2(const S<A> &a, const S<B> &b) {
  return integrate<2>([](const D &x) { return x; }, a, b);
}
template <size_t A, size_t B> D quad5(const S<A> &a, const S<B> &b) {
  return integrate<5>([](const D &x) { return x * x; }, a, b);
}
#endif

template <size_t A>
void inst1() {
  S<A> a{bspline::support::Grid<D>{static_cast<D>(0), static_cast<D>(1)}};
  S<1> v{a.getSupport().getGrid()};
  S<0> v0{a.getSupport().getGrid()};
  const D c = static_cast<D>(2);
  (void)op_id(a); (void)op_x0(a); (void)op_x1(a); (void)op_x2(a); (void)op_x3(a);
  (void)op_d0(a); (void)op_d1(a); (void)op_d2(a); (void)op_d3(a); (void)op_d4(a);
  (void)op_x1d1(a); (void)op_d1x1(a); (void)op_comm(a); (void)op_sum(a); (void)op_sum2(a);
  (void)op_dif(a); (void)op_dif2(a); (void)op_prodsum(a);
  (void)op_cx(a, c); (void)op_xc(a, c); (void)op_xdivc(a, c); (void)op_xplusc(a, c); (void)op_cplusx(a, c);
  (void)op_xminusc(a, c); (void)op_cminusx(a, c); (void)op_neg(a); (void)op_int2d(a); (void)op_ddiv2(a);
  (void)op_dplus1(a); (void)op_nested(a, c);
  (void)op_negdiv(a, c); (void)op_negmul(a, c); (void)op_divdiv(a, c); (void)op_divsum(a, c); (void)op_ddivprod(a, c);
  (void)op_intdiv(a);
  (void)op_fac(a, v); (void)op_fac0(a, v0); (void)op_facd(a, v); (void)op_dfac(a, v); (void)op_facsum(a, v, c);
  (void)lf_id(a); (void)lf_x1(a); (void)lf_x1d1(a); (void)lf_d1(a); (void)lf_fac(a, v);
}
template <size_t A, size_t B>
void inst2() {
  S<A> a{bspline::support::Grid<D>{static_cast<D>(0), static_cast<D>(1)}};
  S<B> b{a.getSupport().getGrid()};
  S<1> v{a.getSupport().getGrid()};
  (void)bf_aff(a, b, static_cast<D>(2), static_cast<D>(3));
  (void)bf_id(a, b); (void)bf_x1d1(a, b); (void)bf_d1(a, b); (void)bf_x2(a, b); (void)bf_fac(a, b, v);
#ifndef VT_CASE_NO_QUAD
  (void)quad2(a, b); (void)quad5(a, b);
#endif
}
#ifdef VT_CASE_HIGH
// high-order slice (unit cases_high): the same named cases for spline orders 5 and 6
template void inst1<5>();
template void inst1<6>();
template void inst2<5, 5>();
template void inst2<6, 2>();
template void inst2<2, 6>();
template void inst2<4, 5>();
#else
template void inst1<0>();
template void inst1<1>();
template void inst1<2>();
template void inst1<3>();
template void inst2<0, 0>();   // smallest kernels (one / two product coefficients)
template void inst2<0, 1>();
template void inst2<1, 0>();
template void inst2<1, 1>();
template void inst2<2, 1>();
template void inst2<0, 3>();
template void inst2<2, 2>();
#endif
}  // namespace vt_case
#endif
