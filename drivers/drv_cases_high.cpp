// Case driver for the region evaluator, spline orders 5 and 6: see cases.h.
#define VT_CASE_HIGH
#include "cases.h"
