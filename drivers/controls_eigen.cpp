// Positive controls that need Eigen (kept out of controls.cpp so that unit stays small).
// Each function is a deliberately wrong sibling of code in examples/; the rule named in the comment must flag it on
// every run (bsv/controls.py), otherwise the check exits 2.
#include <Eigen/Dense>
#include <cstddef>

namespace vt_control {
using Mat = Eigen::Matrix<double, Eigen::Dynamic, Eigen::Dynamic>;

// R-EX.init: size-only construction, element writes skipped on one path
inline Mat ctl_eigen_uninit(size_t n) {
  Mat ret(n, n);
  for (size_t i = 0; i < n; i++) {
    for (size_t j = i; j < n; j++) {
      if ((i + j) % 3 == 0) continue;
      ret(i, j) = 1.0;
      ret(j, i) = 1.0;
    }
  }
  return ret;
}
// accepted idioms (must stay silent): whole-object initialiser, unconditional fill
inline Mat ok_eigen_setzero(size_t n) {
  Mat ret(n, n);
  ret.setZero();
  ret(0, 0) = 1.0;
  return ret;
}
inline Mat ok_eigen_fill_loop(size_t n) {
  Mat ret(n, n);
  for (size_t i = 0; i < n; i++) {
    for (size_t j = 0; j < n; j++) ret(i, j) = 1.0;
  }
  return ret;
}
// accepted: member sized in the initialiser list and zeroed first thing in the constructor body
struct OkEigenMember {
  Mat _m;
  explicit OkEigenMember(size_t n) : _m(n, n) { _m.setZero(); }
};
// flagged: member sized only
struct CtlEigenMember {
  Mat _m;
  explicit CtlEigenMember(size_t n) : _m(n, n) {}
};
inline void instantiate_eigen() {
  OkEigenMember okm(3);
  CtlEigenMember ctm(3);
  (void)okm;
  (void)ctm;
  (void)ctl_eigen_uninit(3);
  (void)ok_eigen_setzero(3);
  (void)ok_eigen_fill_loop(3);
}
}  // namespace vt_control
