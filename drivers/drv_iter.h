// Instantiation driver, part 3: Grid from iterator ranges of every category the constructor template accepts today,
// including a single-pass (input) range (vt::InIt, arch.h). Kept in a unit of its own: if the iterator-pair constructor
// stops compiling for input iterators, that is reported as a break of C11's clause and does not take other checks down.
#ifndef VT_DRV_ITER_H
#define VT_DRV_ITER_H
#include <bspline/Core.h>

#include <memory>
#include <vector>

#include "arch.h"

namespace vt {
template <typename T>
void iterator_api() {
  using namespace bspline::support;
  std::vector<T> v(4);
  Grid<T> g(v);
  Grid<T> g2(v.begin(), v.end());
  Grid<T> g2s{InIt<T>{v}, InIt<T>{}};   // a single-pass range (stream-like source)
  Grid<T> g3{static_cast<T>(0), static_cast<T>(1)};
  Grid<T> g4(std::make_shared<const std::vector<T>>(v));
  (void)g.size(); (void)g2.size(); (void)g2s.size(); (void)g3.size(); (void)g4.size();
}
}  // namespace vt
#endif
