// vt::Arch -- minimal scalar archetype for property C19 (rule R-ARCH).
//
// Offers exactly what the library documents as the requirements on the scalar
// type T and nothing else:
//   * default / copy construction, copy assignment
//   * construction from an integer through static_cast (explicit constructor)
//   * + - * /  and  += -= *= /=  between two Arch values, unary minus
//   * the six comparisons, returning bool
// Everything else is absent or deleted: no implicit conversion from built-in
// numbers, no construction from floating point, no conversion to anything,
// no <cmath> overloads, no stream operators, no numeric_limits specialisation.
#ifndef VT_ARCH_H
#define VT_ARCH_H
#include <cstddef>
#include <iterator>
#include <type_traits>

namespace vt {
class Arch {
  long _v = 0;

 public:
  Arch() = default;
  Arch(const Arch &) = default;
  Arch &operator=(const Arch &) = default;

  template <typename I, std::enable_if_t<std::is_integral_v<I> && !std::is_same_v<I, bool>, int> = 0>
  explicit Arch(I) {}

  template <typename F, std::enable_if_t<std::is_floating_point_v<F>, int> = 0>
  Arch(F) = delete;
  Arch(bool) = delete;

  friend Arch operator+(const Arch &, const Arch &) { return Arch(); }
  friend Arch operator-(const Arch &, const Arch &) { return Arch(); }
  friend Arch operator*(const Arch &, const Arch &) { return Arch(); }
  friend Arch operator/(const Arch &, const Arch &) { return Arch(); }
  Arch &operator+=(const Arch &) { return *this; }
  Arch &operator-=(const Arch &) { return *this; }
  Arch &operator*=(const Arch &) { return *this; }
  Arch &operator/=(const Arch &) { return *this; }
  Arch operator-() const { return Arch(); }
  friend bool operator<(const Arch &, const Arch &) { return false; }
  friend bool operator<=(const Arch &, const Arch &) { return false; }
  friend bool operator>(const Arch &, const Arch &) { return false; }
  friend bool operator>=(const Arch &, const Arch &) { return false; }
  friend bool operator==(const Arch &, const Arch &) { return false; }
  friend bool operator!=(const Arch &, const Arch &) { return false; }
};

// vt::InIt -- single-pass input-iterator archetype: exactly what LegacyInputIterator guarantees. All copies read
// from one underlying stream (like std::istream_iterator): once any copy has been incremented, the range cannot be
// traversed a second time. The region evaluator models it natively (bsv/interp.py, class SinglePass); the
// declarations below only make the library's iterator-pair constructors instantiate with it.
template <typename T>
class InIt {
  const void *_stream = nullptr;

 public:
  using iterator_category = std::input_iterator_tag;
  using value_type = T;
  using difference_type = std::ptrdiff_t;
  using pointer = const T *;
  using reference = const T &;
  InIt() = default;                           // the end-of-stream sentinel
  template <typename C>
  explicit InIt(const C &source);             // reads from `source`, front to back
  InIt(const InIt &) = default;
  InIt &operator=(const InIt &) = default;
  reference operator*() const;
  pointer operator->() const;
  InIt &operator++();
  void operator++(int);                       // (LegacyInputIterator: the result of it++ need not be an iterator)
  friend bool operator==(const InIt &, const InIt &) { return true; }
  friend bool operator!=(const InIt &, const InIt &) { return false; }
};
}  // namespace vt
#endif
