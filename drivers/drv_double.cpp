// double driver: the whole core API plus the double-only parts
// (numerical quadrature, Eigen interpolation adapter).
#include "drv_core.h"
#include <bspline/integration/numerical.h>
// results of the driver grid reach order 7; the region evaluator observes them through their accessors
template class bspline::Spline<double, 4>;
template class bspline::Spline<double, 5>;
template class bspline::Spline<double, 6>;
template class bspline::Spline<double, 7>;

namespace vt {
template <size_t A, size_t B>
void quad_ops() {
  Spline<double, A> a = mk<double, A>();
  Spline<double, B> b = mk<double, B>();
  const auto f = [](const double &x) { return x; };
  (void)bspline::integration::integrate<1>(f, a, b);
  (void)bspline::integration::integrate<2>(f, a, b);
  (void)bspline::integration::integrate<5>(f, a, b);
  // sizes that are not among boost's pre-tabulated rules, and weights whose result type is not the scalar type
  (void)bspline::integration::integrate<8>(f, a, b);
  (void)bspline::integration::integrate<11>(f, a, b);
  (void)bspline::integration::integrate<3>([](const double &) { return 1; }, a, b);
  (void)bspline::integration::integrate<3>([](const double &x) { return static_cast<float>(x); }, a, b);
}
#ifdef BSPLINE_INTERPOLATION_USE_EIGEN
template <size_t O>
void eigen_interp() {
  auto sup = mk<double, 1>().getSupport();
  std::vector<double> y(sup.size());
  (void)bspline::interpolation::interpolateUsingEigen<double, O>(sup, y);
}
template void eigen_interp<1>();
template void eigen_interp<3>();
#endif
template void quad_ops<0, 0>();
template void quad_ops<1, 3>();
template void quad_ops<3, 2>();
}  // namespace vt
template void vt::drive<double>();
