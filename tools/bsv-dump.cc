// bsv-dump: fact extractor for the BSplinebasis static checks.
//
// One run per translation unit.  Emits a single JSON document
//   { "unit": ..., "roots": [...],
//     "fns":   [ per function body under a root: compact statement tree
//                (resolved callees, constant-folded integers, macro origin),
//                constructor initialisers, and -- for non-dependent bodies --
//                clang's CFG whose elements refer to the tree's node ids ],
//     "decls": [ side table: functions / records / fields / variables under a
//                root, plus every declaration referenced from such code ],
//     "types": [ interned canonical type strings ] }
//
// Modes:  --mode=full   (default)  fns + decls
//         --mode=census            decls only (used for the big test units)
//
// Build (see bin/setup):
//   clang++ $(llvm-config-14 --cxxflags) -fno-rtti bsv-dump.cc -o bsv-dump \
//       /usr/lib/llvm-14/lib/libclang-cpp.so.14 /usr/lib/llvm-14/lib/libLLVM-14.so

#include "clang/AST/ASTConsumer.h"
#include "clang/AST/DeclCXX.h"
#include "clang/AST/DeclTemplate.h"
#include "clang/AST/ExprCXX.h"
#include "clang/AST/RecursiveASTVisitor.h"
#include "clang/AST/StmtCXX.h"
#include "clang/Analysis/CFG.h"
#include "clang/Frontend/CompilerInstance.h"
#include "clang/Frontend/FrontendAction.h"
#include "clang/Lex/Lexer.h"
#include "clang/Tooling/CommonOptionsParser.h"
#include "clang/Tooling/Tooling.h"
#include "llvm/ADT/DenseMap.h"
#include "llvm/Support/CommandLine.h"
#include "llvm/Support/JSON.h"

#include <map>
#include <string>
#include <vector>

using namespace clang;
using namespace clang::tooling;

static llvm::cl::OptionCategory Cat("bsv-dump");
static llvm::cl::list<std::string> Roots("root", llvm::cl::desc("source root (repeatable)"),
                                         llvm::cl::cat(Cat));
static llvm::cl::opt<std::string> Mode("mode", llvm::cl::init("full"), llvm::cl::cat(Cat));
static llvm::cl::opt<std::string> OutFile("o", llvm::cl::init("-"), llvm::cl::cat(Cat));

static std::string TS(clang::QualType T) {
  if (T.isNull()) return "<null>";
  static clang::LangOptions LO = [] { clang::LangOptions L; L.CPlusPlus = true; L.CPlusPlus17 = true; L.Bool = true; return L; }();
  clang::PrintingPolicy PP(LO);
  PP.SuppressTagKeyword = true;
  PP.FullyQualifiedName = true;
  return T.getCanonicalType().getAsString(PP);
}

static std::string Q(llvm::StringRef s) {
  std::string o;
  llvm::raw_string_ostream os(o);
  os << llvm::json::Value(s.str());
  return os.str();
}

namespace {

struct Ctx {
  ASTContext &C;
  SourceManager &SM;
  llvm::DenseMap<const void *, unsigned> Ids;
  std::map<std::string, unsigned> TypeIdx;
  std::vector<std::string> Types;
  explicit Ctx(ASTContext &C) : C(C), SM(C.getSourceManager()) {}

  unsigned id(const void *p) {
    auto it = Ids.find(p);
    if (it != Ids.end()) return it->second;
    unsigned n = Ids.size() + 1;
    Ids[p] = n;
    return n;
  }
  unsigned type(QualType T) {
    std::string s = TS(T);
    auto it = TypeIdx.find(s);
    if (it != TypeIdx.end()) return it->second;
    unsigned n = Types.size();
    Types.push_back(s);
    TypeIdx[s] = n;
    return n;
  }
  SourceLocation norm(SourceLocation L) const {
    if (L.isInvalid()) return L;
    return L.isMacroID() ? SM.getExpansionLoc(L) : SM.getSpellingLoc(L);
  }
  std::string fileOf(SourceLocation L) const {
    L = norm(L);
    if (L.isInvalid()) return "";
    return SM.getFilename(L).str();
  }
  unsigned lineOf(SourceLocation L) const {
    L = norm(L);
    if (L.isInvalid()) return 0;
    return SM.getSpellingLineNumber(L);
  }
  unsigned colOf(SourceLocation L) const {
    L = norm(L);
    if (L.isInvalid()) return 0;
    return SM.getSpellingColumnNumber(L);
  }
  bool inRoot(SourceLocation L) const {
    auto F = fileOf(L);
    if (F.empty()) return false;
    for (auto &R : Roots)
      if (llvm::StringRef(F).startswith(R)) return true;
    return false;
  }
};

static const char *accessStr(AccessSpecifier A) {
  switch (A) {
    case AS_public: return "public";
    case AS_protected: return "protected";
    case AS_private: return "private";
    default: return "none";
  }
}
static const char *B(bool b) { return b ? "true" : "false"; }

class DeclTable {
 public:
  Ctx &X;
  std::map<unsigned, std::string> rows;
  explicit DeclTable(Ctx &X) : X(X) {}

  static std::string qname(const NamedDecl *D) {
    std::string s;
    llvm::raw_string_ostream os(s);
    PrintingPolicy PP(D->getASTContext().getLangOpts());
    PP.PrintCanonicalTypes = true;
    D->getNameForDiagnostic(os, PP, true);
    return os.str();
  }

  void locFields(llvm::raw_ostream &os, const Decl *D) {
    os << ",\"file\":" << Q(X.fileOf(D->getLocation())) << ",\"line\":" << X.lineOf(D->getLocation())
       << ",\"inroot\":" << B(X.inRoot(D->getLocation()));
  }

  void add(const Decl *D) {
    if (!D) return;
    unsigned me = X.id(D);
    if (rows.count(me)) return;
    std::string s;
    llvm::raw_string_ostream os(s);
    if (auto *F = dyn_cast<FunctionDecl>(D)) {
      rows[me] = "";
      os << "{\"id\":" << me << ",\"k\":\"fn\",\"kind\":" << Q(D->getDeclKindName())
         << ",\"name\":" << Q(F->getNameAsString()) << ",\"qn\":" << Q(qname(F));
      locFields(os, D);
      const FunctionDecl *Pat = F->getTemplateInstantiationPattern();
      if (!Pat) Pat = F;
      if (const FunctionDecl *Def = Pat->getDefinition()) Pat = Def;
      os << ",\"pfile\":" << Q(X.fileOf(Pat->getLocation())) << ",\"pline\":" << X.lineOf(Pat->getLocation());
      os << ",\"pqn\":" << Q(Pat->getQualifiedNameAsString());
      os << ",\"canon\":" << X.id(F->getCanonicalDecl());
      const FunctionDecl *Def = nullptr;
      bool hasBody = F->hasBody(Def);
      os << ",\"hasbody\":" << B(hasBody);
      if (hasBody) os << ",\"def\":" << X.id(Def);
      os << ",\"dependent\":" << B(F->isDependentContext());
      os << ",\"implicit\":" << B(F->isImplicit());
      os << ",\"defaulted\":" << B(F->isDefaulted());
      os << ",\"deleted\":" << B(F->isDeleted());
      os << ",\"tsk\":" << (int)F->getTemplateSpecializationKind();
      os << ",\"istemplate\":" << B(F->getDescribedFunctionTemplate() != nullptr || F->isTemplateInstantiation());
      bool nothrow = false;
      if (auto *FPT = F->getType()->getAs<FunctionProtoType>()) {
        auto EST = FPT->getExceptionSpecType();
        if (!isUnresolvedExceptionSpec(EST) && !F->isDependentContext()) nothrow = FPT->isNothrow();
      }
      os << ",\"noexcept\":" << B(nothrow);
      os << ",\"rtype\":" << Q(TS(F->getReturnType()));
      os << ",\"params\":[";
      bool first = true;
      for (auto *PV : F->parameters()) {
        if (!first) os << ",";
        first = false;
        os << "{\"id\":" << X.id(PV) << ",\"name\":" << Q(PV->getNameAsString()) << ",\"type\":"
           << Q(TS(PV->getType())) << "}";
      }
      os << "]";
      if (auto *M = dyn_cast<CXXMethodDecl>(F)) {
        os << ",\"record\":" << X.id(M->getParent());
        os << ",\"recqn\":" << Q(qname(M->getParent()));
        os << ",\"access\":\"" << accessStr(M->getAccess()) << "\"";
        os << ",\"const\":" << B(M->isConst());
        os << ",\"refq\":" << (int)M->getRefQualifier();   // 0 none, 1 &, 2 &&
        os << ",\"static\":" << B(M->isStatic());
        os << ",\"virtual\":" << B(M->isVirtual());
        os << ",\"copyassign\":" << B(M->isCopyAssignmentOperator());
        os << ",\"moveassign\":" << B(M->isMoveAssignmentOperator());
        os << ",\"lambdaop\":" << B(M->getParent()->isLambda());
        if (M->getParent()->isLambda()) {
          if (auto *PF = dyn_cast_or_null<FunctionDecl>(M->getParent()->getParentFunctionOrMethod()))
            os << ",\"lambdaparent\":" << X.id(PF);
          os << ",\"col\":" << X.colOf(M->getParent()->getLocation());
        }
        if (auto *CD = dyn_cast<CXXConstructorDecl>(M)) {
          os << ",\"ctor\":true,\"copyctor\":" << B(CD->isCopyConstructor()) << ",\"movector\":"
             << B(CD->isMoveConstructor()) << ",\"defaultctor\":" << B(CD->isDefaultConstructor())
             << ",\"delegating\":" << B(CD->isDelegatingConstructor());
          os << ",\"explicit\":" << B(CD->isExplicit());
        }
        if (isa<CXXDestructorDecl>(M)) os << ",\"dtor\":true";
        if (isa<CXXConversionDecl>(M)) os << ",\"conversion\":true";
      }
      if (F->isOverloadedOperator()) os << ",\"op\":" << Q(getOperatorSpelling(F->getOverloadedOperator()));
      os << "}";
      rows[me] = os.str();
      if (auto *M = dyn_cast<CXXMethodDecl>(F)) add(M->getParent());
      return;
    }
    if (auto *R = dyn_cast<CXXRecordDecl>(D)) {
      rows[me] = "";
      os << "{\"id\":" << me << ",\"k\":\"rec\",\"kind\":" << Q(D->getDeclKindName()) << ",\"name\":"
         << Q(R->getNameAsString()) << ",\"qn\":" << Q(qname(R));
      locFields(os, D);
      const CXXRecordDecl *Pat = R->getTemplateInstantiationPattern();
      if (!Pat) Pat = R;
      os << ",\"pfile\":" << Q(X.fileOf(Pat->getLocation())) << ",\"pline\":" << X.lineOf(Pat->getLocation());
      os << ",\"pqn\":" << Q(Pat->getQualifiedNameAsString());
      os << ",\"lambda\":" << B(R->isLambda());
      os << ",\"complete\":" << B(R->isCompleteDefinition());
      os << ",\"dependent\":" << B(R->isDependentContext());
      os << ",\"local\":" << B(R->isLocalClass() != nullptr);
      if (R->isCompleteDefinition()) {
        bool dep = R->isDependentContext();
        if (!dep) os << ",\"hasMutable\":" << B(R->hasMutableFields());
        os << ",\"fields\":[";
        bool first = true;
        for (auto *FD : R->fields()) {
          if (!first) os << ",";
          first = false;
          os << "{\"id\":" << X.id(FD) << ",\"name\":" << Q(FD->getNameAsString()) << ",\"type\":"
             << Q(TS(FD->getType()))
             << ",\"mutable\":" << B(FD->isMutable()) << ",\"line\":" << X.lineOf(FD->getLocation())
             << ",\"access\":\"" << accessStr(FD->getAccess()) << "\"}";
        }
        os << "]";
        if (!dep) {
          os << ",\"bases\":[";
          first = true;
          for (auto &Bs : R->bases()) {
            if (!first) os << ",";
            first = false;
            os << Q(TS(Bs.getType()));
          }
          os << "]";
        }
      }
      os << "}";
      rows[me] = os.str();
      return;
    }
    if (auto *FD = dyn_cast<FieldDecl>(D)) {
      os << "{\"id\":" << me << ",\"k\":\"field\",\"name\":" << Q(FD->getNameAsString()) << ",\"qn\":"
         << Q(qname(FD));
      locFields(os, D);
      os << ",\"type\":" << Q(TS(FD->getType())) << ",\"mutable\":"
         << B(FD->isMutable()) << ",\"record\":" << X.id(FD->getParent()) << ",\"access\":\""
         << accessStr(FD->getAccess()) << "\"}";
      rows[me] = os.str();
      return;
    }
    if (auto *VD = dyn_cast<VarDecl>(D)) {
      os << "{\"id\":" << me << ",\"k\":\"var\",\"kind\":" << Q(D->getDeclKindName()) << ",\"name\":"
         << Q(VD->getNameAsString()) << ",\"qn\":" << Q(qname(VD));
      locFields(os, D);
      QualType T = VD->getType();
      os << ",\"type\":" << Q(TS(T));
      os << ",\"sd\":" << (int)VD->getStorageDuration();  // 0 full-expr,1 auto,2 thread,3 static,4 dynamic
      os << ",\"staticlocal\":" << B(VD->isStaticLocal());
      os << ",\"local\":" << B(VD->isLocalVarDeclOrParm());
      os << ",\"constexpr\":" << B(VD->isConstexpr());
      os << ",\"constq\":" << B(!T->isDependentType() && T.isConstQualified());
      os << ",\"ref\":" << B(T->isReferenceType());
      os << ",\"dependent\":" << B(T->isDependentType());
      os << ",\"staticmember\":" << B(VD->isStaticDataMember());
      os << ",\"tls\":" << (int)VD->getTLSKind();
      if (auto *DC = dyn_cast_or_null<FunctionDecl>(VD->getParentFunctionOrMethod()))
        os << ",\"infn\":" << X.id(DC);
      // compile-time integer constants (static constexpr size_t BLOCK = 16;): usable also where the reference is an lvalue
      if (!T->isDependentType() && T.isConstQualified() && T->isIntegralOrEnumerationType() && VD->hasInit() &&
          !VD->getInit()->isValueDependent()) {
        if (const APValue *V = VD->evaluateValue())
          if (V->isInt()) os << ",\"ival\":" << Q(toString(V->getInt(), 10));
      }
      os << "}";
      rows[me] = os.str();
      return;
    }
    if (auto *ND = dyn_cast<NamedDecl>(D)) {
      os << "{\"id\":" << me << ",\"k\":\"other\",\"kind\":" << Q(D->getDeclKindName()) << ",\"name\":"
         << Q(ND->getNameAsString()) << ",\"qn\":" << Q(qname(ND));
      locFields(os, D);
      if (auto *EC = dyn_cast<EnumConstantDecl>(D)) os << ",\"value\":" << EC->getInitVal().getExtValue();
      os << "}";
      rows[me] = os.str();
    }
  }
};

// Compact statement serializer.
class Ser {
 public:
  Ctx &X;
  DeclTable &DT;
  llvm::raw_ostream &OS;
  std::string FnFile;
  Ser(Ctx &X, DeclTable &DT, llvm::raw_ostream &OS) : X(X), DT(DT), OS(OS) {}

  void child(const Stmt *S, bool &first) {
    if (!first) OS << ",";
    first = false;
    if (!S)
      OS << "null";
    else
      stmt(S);
  }

  void varDecl(const VarDecl *VD) {
    DT.add(VD);
    OS << "{\"k\":\"VarDecl\",\"id\":" << X.id(VD) << ",\"n\":" << Q(VD->getNameAsString())
       << ",\"t\":" << X.type(VD->getType()) << ",\"l\":" << X.lineOf(VD->getLocation());
    if (VD->isStaticLocal()) OS << ",\"static\":true";
    if (auto *DD = dyn_cast<DecompositionDecl>(VD)) {
      // structured binding: each name is an expression over the hidden decomposed variable
      OS << ",\"bind\":[";
      bool fb = true;
      for (auto *BD : DD->bindings()) {
        if (!fb) OS << ",";
        fb = false;
        OS << "{\"id\":" << X.id(BD) << ",\"n\":" << Q(BD->getNameAsString()) << ",\"e\":";
        if (BD->getBinding())
          stmt(BD->getBinding());
        else
          OS << "null";
        if (auto *HV = BD->getHoldingVar()) {
          OS << ",\"hold\":";
          varDecl(HV);
        }
        OS << "}";
      }
      OS << "]";
    }
    if (VD->hasInit()) {
      OS << ",\"is\":" << (int)VD->getInitStyle();
      OS << ",\"ch\":[";
      stmt(VD->getInit());
      OS << "]";
    } else {
      OS << ",\"ch\":[]";
    }
    OS << "}";
  }

  void stmt(const Stmt *S) {
    OS << "{\"k\":" << Q(S->getStmtClassName()) << ",\"id\":" << X.id(S);
    SourceLocation BL = S->getBeginLoc();
    OS << ",\"l\":" << X.lineOf(BL) << ",\"c\":" << X.colOf(BL);
    unsigned el = X.lineOf(S->getEndLoc());
    if (el != X.lineOf(BL)) OS << ",\"el\":" << el;
    {
      std::string f = X.fileOf(BL);
      if (!f.empty() && f != FnFile) OS << ",\"f\":" << Q(f);
    }
    if (BL.isValid() && BL.isMacroID()) {
      auto N = Lexer::getImmediateMacroName(BL, X.SM, X.C.getLangOpts());
      OS << ",\"m\":" << Q(N);
      // outermost macro of the expansion stack
      SourceLocation L = BL;
      while (L.isMacroID()) {
        SourceLocation Up = X.SM.getImmediateMacroCallerLoc(L);
        if (!Up.isMacroID()) break;
        L = Up;
      }
      auto N2 = Lexer::getImmediateMacroName(L, X.SM, X.C.getLangOpts());
      if (N2 != N) OS << ",\"mo\":" << Q(N2);
    }
    if (auto *E = dyn_cast<Expr>(S)) {
      OS << ",\"t\":" << X.type(E->getType());
      OS << ",\"vc\":\"" << (E->isLValue() ? "l" : (E->isXValue() ? "x" : "p")) << "\"";
      if (!E->isValueDependent() && !E->isTypeDependent() && !E->getType().isNull() &&
          E->getType()->isIntegralOrEnumerationType() && E->isPRValue() && !isa<IntegerLiteral>(E)) {
        Expr::EvalResult R;
        if (E->EvaluateAsInt(R, X.C, Expr::SE_NoSideEffects, /*InConstantContext=*/false)) {
          llvm::SmallString<32> Str;
          R.Val.getInt().toString(Str, 10);
          OS << ",\"cv\":\"" << Str << "\"";
        }
      }
    }
    // kind specific
    if (auto *DR = dyn_cast<DeclRefExpr>(S)) {
      DT.add(DR->getDecl());
      OS << ",\"d\":" << X.id(DR->getDecl()) << ",\"n\":" << Q(DR->getDecl()->getNameAsString());
    } else if (auto *ME = dyn_cast<MemberExpr>(S)) {
      DT.add(ME->getMemberDecl());
      OS << ",\"d\":" << X.id(ME->getMemberDecl()) << ",\"n\":" << Q(ME->getMemberDecl()->getNameAsString())
         << ",\"arrow\":" << B(ME->isArrow());
    } else if (auto *CE = dyn_cast<CallExpr>(S)) {
      if (auto *FD = CE->getDirectCallee()) {
        DT.add(FD);
        OS << ",\"callee\":" << X.id(FD);
      }
      if (auto *OC = dyn_cast<CXXOperatorCallExpr>(S))
        OS << ",\"op\":" << Q(getOperatorSpelling(OC->getOperator()));
    } else if (auto *CC = dyn_cast<CXXConstructExpr>(S)) {
      DT.add(CC->getConstructor());
      OS << ",\"d\":" << X.id(CC->getConstructor()) << ",\"elidable\":" << B(CC->isElidable())
         << ",\"list\":" << B(CC->isListInitialization());
    } else if (auto *BO = dyn_cast<BinaryOperator>(S)) {
      OS << ",\"op\":" << Q(BO->getOpcodeStr());
    } else if (auto *UO = dyn_cast<UnaryOperator>(S)) {
      OS << ",\"op\":" << Q(UnaryOperator::getOpcodeStr(UO->getOpcode())) << ",\"postfix\":" << B(UO->isPostfix());
    } else if (auto *IL = dyn_cast<IntegerLiteral>(S)) {
      llvm::SmallString<32> Str;
      IL->getValue().toString(Str, 10, false);
      OS << ",\"v\":\"" << Str << "\"";
    } else if (auto *BL2 = dyn_cast<CXXBoolLiteralExpr>(S)) {
      OS << ",\"v\":" << B(BL2->getValue());
    } else if (auto *FL = dyn_cast<FloatingLiteral>(S)) {
      llvm::SmallString<32> Str;
      FL->getValue().toString(Str);
      OS << ",\"v\":\"" << Str << "\"";
    } else if (auto *SL = dyn_cast<StringLiteral>(S)) {
      if (SL->isAscii()) OS << ",\"v\":" << Q(SL->getString().take_front(60));
    } else if (auto *CA = dyn_cast<CastExpr>(S)) {
      OS << ",\"ck\":" << Q(CA->getCastKindName());
      if (auto *EC = dyn_cast<ExplicitCastExpr>(S)) OS << ",\"tw\":" << X.type(EC->getTypeAsWritten());
      if (auto *CF = CA->getConversionFunction()) {
        DT.add(CF);
        OS << ",\"conv\":" << X.id(CF);
      }
    } else if (auto *IS = dyn_cast<IfStmt>(S)) {
      OS << ",\"constexpr\":" << B(IS->isConstexpr());
    } else if (auto *LE = dyn_cast<LambdaExpr>(S)) {
      DT.add(LE->getLambdaClass());
      DT.add(LE->getCallOperator());
      OS << ",\"class\":" << X.id(LE->getLambdaClass()) << ",\"callop\":" << X.id(LE->getCallOperator());
      OS << ",\"caps\":[";
      bool f = true;
      for (auto &Cp : LE->captures()) {
        if (!f) OS << ",";
        f = false;
        OS << "{\"kind\":" << (int)Cp.getCaptureKind();
        if (Cp.capturesVariable()) OS << ",\"var\":" << X.id(Cp.getCapturedVar());
        OS << "}";
      }
      OS << "]";
    } else if (auto *NE = dyn_cast<CXXNewExpr>(S)) {
      if (NE->getOperatorNew()) DT.add(NE->getOperatorNew());
    } else if (auto *SO = dyn_cast<UnaryExprOrTypeTraitExpr>(S)) {
      OS << ",\"trait\":" << (int)SO->getKind();
    } else if (auto *UL = dyn_cast<UnresolvedLookupExpr>(S)) {
      OS << ",\"n\":" << Q(UL->getName().getAsString());
    } else if (auto *UM = dyn_cast<UnresolvedMemberExpr>(S)) {
      OS << ",\"n\":" << Q(UM->getMemberName().getAsString());
    } else if (auto *DM = dyn_cast<CXXDependentScopeMemberExpr>(S)) {
      OS << ",\"n\":" << Q(DM->getMember().getAsString());
    } else if (auto *DS = dyn_cast<DependentScopeDeclRefExpr>(S)) {
      OS << ",\"n\":" << Q(DS->getDeclName().getAsString());
    } else if (auto *DA = dyn_cast<CXXDefaultArgExpr>(S)) {
      OS << ",\"param\":" << X.id(DA->getParam());
    }

    // children
    OS << ",\"ch\":[";
    bool first = true;
    if (auto *DS = dyn_cast<DeclStmt>(S)) {
      for (auto *D : DS->decls()) {
        if (!first) OS << ",";
        first = false;
        if (auto *VD = dyn_cast<VarDecl>(D))
          varDecl(VD);
        else
          OS << "{\"k\":" << Q(std::string(D->getDeclKindName()) + "Decl") << ",\"id\":" << X.id(D) << ",\"ch\":[]}";
      }
    } else if (auto *IS = dyn_cast<IfStmt>(S)) {
      child(IS->getInit(), first);
      child(IS->getConditionVariableDeclStmt(), first);
      child(IS->getCond(), first);
      child(IS->getThen(), first);
      child(IS->getElse(), first);
    } else if (auto *FS = dyn_cast<ForStmt>(S)) {
      child(FS->getInit(), first);
      child(FS->getConditionVariableDeclStmt(), first);
      child(FS->getCond(), first);
      child(FS->getInc(), first);
      child(FS->getBody(), first);
    } else if (auto *WS = dyn_cast<WhileStmt>(S)) {
      child(WS->getConditionVariableDeclStmt(), first);
      child(WS->getCond(), first);
      child(WS->getBody(), first);
    } else if (auto *DoS = dyn_cast<DoStmt>(S)) {
      child(DoS->getBody(), first);
      child(DoS->getCond(), first);
    } else if (auto *RS = dyn_cast<CXXForRangeStmt>(S)) {
      child(RS->getInit(), first);
      child(RS->getRangeStmt(), first);
      child(RS->getBeginStmt(), first);
      child(RS->getEndStmt(), first);
      child(RS->getCond(), first);
      child(RS->getInc(), first);
      child(RS->getLoopVarStmt(), first);
      child(RS->getBody(), first);
    } else if (auto *Ret = dyn_cast<ReturnStmt>(S)) {
      child(Ret->getRetValue(), first);
    } else if (auto *LE = dyn_cast<LambdaExpr>(S)) {
      for (auto *I : LE->capture_inits()) child(I, first);
    } else if (auto *DI = dyn_cast<CXXDefaultInitExpr>(S)) {
      child(DI->getExpr(), first);
    } else {
      for (const Stmt *Cs : S->children()) child(Cs, first);
    }
    OS << "]}";
  }
};

class V : public RecursiveASTVisitor<V> {
 public:
  Ctx &X;
  DeclTable &DT;
  llvm::raw_ostream *OS;  // null in census mode
  bool first = true;
  V(Ctx &X, DeclTable &DT, llvm::raw_ostream *OS) : X(X), DT(DT), OS(OS) {}
  bool shouldVisitTemplateInstantiations() const { return true; }
  bool shouldVisitImplicitCode() const { return true; }

  bool VisitDeclRefExpr(DeclRefExpr *E) {
    DT.add(E->getDecl());
    return true;
  }
  bool VisitMemberExpr(MemberExpr *E) {
    DT.add(E->getMemberDecl());
    return true;
  }
  bool VisitCXXConstructExpr(CXXConstructExpr *E) {
    DT.add(E->getConstructor());
    return true;
  }
  bool VisitCXXRecordDecl(CXXRecordDecl *R) {
    if (X.inRoot(R->getLocation())) DT.add(R);
    return true;
  }
  bool VisitFieldDecl(FieldDecl *F) {
    if (X.inRoot(F->getLocation())) DT.add(F);
    return true;
  }
  bool VisitVarDecl(VarDecl *Vd) {
    if (X.inRoot(Vd->getLocation())) DT.add(Vd);
    return true;
  }
  bool VisitFunctionDecl(FunctionDecl *F) {
    if (!X.inRoot(F->getLocation())) return true;
    DT.add(F);
    if (!OS) return true;
    if (!F->doesThisDeclarationHaveABody()) return true;
    Stmt *Body = F->getBody();
    if (!Body) return true;
    if (!first) *OS << ",\n";
    first = false;
    Ser S(X, DT, *OS);
    S.FnFile = X.fileOf(F->getLocation());
    *OS << "{\"fn\":" << X.id(F) << ",\"file\":" << Q(S.FnFile) << ",\"dependent\":" << B(F->isDependentContext());
    if (auto *CD = dyn_cast<CXXConstructorDecl>(F)) {
      *OS << ",\"inits\":[";
      bool fi = true;
      for (auto *I : CD->inits()) {
        if (!fi) *OS << ",";
        fi = false;
        *OS << "{\"written\":" << B(I->isWritten());
        if (I->isAnyMemberInitializer() && I->getAnyMember()) {
          DT.add(I->getAnyMember());
          *OS << ",\"field\":" << X.id(I->getAnyMember()) << ",\"name\":" << Q(I->getAnyMember()->getNameAsString());
        }
        if (I->isBaseInitializer()) *OS << ",\"base\":" << Q(TS(QualType(I->getBaseClass(), 0)));
        if (I->isDelegatingInitializer()) *OS << ",\"delegating\":true";
        *OS << ",\"init\":";
        if (I->getInit())
          S.stmt(I->getInit());
        else
          *OS << "null";
        *OS << "}";
      }
      *OS << "]";
    }
    *OS << ",\"body\":";
    S.stmt(Body);
    if (!F->isDependentContext()) {
      CFG::BuildOptions BO;
      BO.setAllAlwaysAdd();
      BO.AddImplicitDtors = false;
      BO.AddTemporaryDtors = false;
      BO.AddEHEdges = false;
      BO.AddInitializers = true;
      BO.PruneTriviallyFalseEdges = true;   // infeasible edges are still serialised, marked in "unr"
      auto cfg = CFG::buildCFG(F, Body, &X.C, BO);
      if (!cfg) {
        *OS << ",\"cfg\":null";
      } else {
        *OS << ",\"cfg\":{\"entry\":" << cfg->getEntry().getBlockID() << ",\"exit\":" << cfg->getExit().getBlockID()
            << ",\"blocks\":[";
        bool fb = true;
        for (CFGBlock *Bk : *cfg) {
          if (!fb) *OS << ",";
          fb = false;
          *OS << "{\"id\":" << Bk->getBlockID() << ",\"el\":[";
          bool fe = true;
          for (auto &E : *Bk) {
            if (auto St = E.getAs<CFGStmt>()) {
              if (!fe) *OS << ",";
              fe = false;
              *OS << X.id(St->getStmt());
            } else if (auto I = E.getAs<CFGInitializer>()) {
              if (!fe) *OS << ",";
              fe = false;
              *OS << "-" << X.id(I->getInitializer()->getInit());  // negative: constructor initialiser
            }
          }
          *OS << "],\"term\":";
          if (auto T = Bk->getTerminatorStmt())
            *OS << X.id(T);
          else
            *OS << "null";
          *OS << ",\"cond\":";
          if (auto T = Bk->getTerminatorCondition())
            *OS << X.id(T);
          else
            *OS << "null";
          *OS << ",\"succ\":[";
          bool fs = true;
          std::string unr;   // positions of successors clang marks infeasible (constant condition, if constexpr)
          unsigned pos = 0;
          for (auto Sc : Bk->succs()) {
            if (!fs) *OS << ",";
            fs = false;
            if (Sc.getReachableBlock())
              *OS << Sc.getReachableBlock()->getBlockID();
            else if (Sc.getPossiblyUnreachableBlock()) {
              *OS << Sc.getPossiblyUnreachableBlock()->getBlockID();
              unr += (unr.empty() ? "" : ",") + std::to_string(pos);
            } else
              *OS << "null";
            pos++;
          }
          *OS << "],\"unr\":[" << unr << "],\"noret\":" << B(Bk->hasNoReturnElement()) << "}";
        }
        *OS << "]}";
      }
    }
    *OS << "}";
    return true;
  }
};

class Cons : public ASTConsumer {
 public:
  std::string Unit;
  explicit Cons(std::string U) : Unit(std::move(U)) {}
  void HandleTranslationUnit(ASTContext &C) override {
    if (C.getDiagnostics().hasErrorOccurred()) return;
    Ctx X(C);
    std::error_code EC;
    std::unique_ptr<llvm::raw_fd_ostream> FOS;
    llvm::raw_ostream *OSp = &llvm::outs();
    if (OutFile != "-") {
      FOS = std::make_unique<llvm::raw_fd_ostream>(OutFile, EC);
      if (EC) {
        llvm::errs() << "bsv-dump: cannot open " << OutFile << "\n";
        return;
      }
      OSp = FOS.get();
    }
    auto &OS = *OSp;
    bool full = (Mode == "full");
    OS << "{\"unit\":" << Q(Unit) << ",\"mode\":" << Q(Mode) << ",\"roots\":[";
    for (size_t i = 0; i < Roots.size(); i++) OS << (i ? "," : "") << Q(Roots[i]);
    OS << "],\n\"fns\":[\n";
    DeclTable DT(X);
    V v(X, DT, full ? &OS : nullptr);
    for (Decl *D : C.getTranslationUnitDecl()->decls()) {
      if (!X.inRoot(D->getLocation())) continue;
      v.TraverseDecl(D);
    }
    OS << "],\n\"decls\":[\n";
    bool first = true;
    for (auto &KV : DT.rows) {
      if (KV.second.empty()) continue;
      if (!first) OS << ",\n";
      first = false;
      OS << KV.second;
    }
    OS << "],\n\"types\":[";
    for (size_t i = 0; i < X.Types.size(); i++) OS << (i ? ",\n" : "\n") << Q(X.Types[i]);
    OS << "]}\n";
  }
};

class Act : public ASTFrontendAction {
 public:
  std::unique_ptr<ASTConsumer> CreateASTConsumer(CompilerInstance &, StringRef F) override {
    return std::make_unique<Cons>(F.str());
  }
};

}  // namespace

int main(int argc, const char **argv) {
  auto Pp = CommonOptionsParser::create(argc, argv, Cat);
  if (!Pp) {
    llvm::errs() << llvm::toString(Pp.takeError()) << "\n";
    return 2;
  }
  ClangTool T(Pp->getCompilations(), Pp->getSourcePathList());
  return T.run(newFrontendActionFactory<Act>().get());
}
